#!/usr/bin/env python3
"""Regenerate MANIFEST.json from the table below and validate it against the schema."""
import json, os, subprocess, sys
V = os.path.dirname(os.path.dirname(os.path.abspath(__file__)))
props = [json.loads(l) for l in open(os.path.join(V, "properties.jsonl"))]

CHECKS = {
 "C01": dict(engine="registry", technique="TLA+ spec (Registry.tla) model-checked with TLC; every transition of the state graph replayed on the real library and the intern table compared (spec->code conformance)",
   category="model_checking", design_ref="§5 C01",
   text="All histories of public unit operations up to a bounded depth over a small universe chosen to contain the dangerous shapes are enumerated by TLC from the Registry specification; every transition is executed on the real library in a process whose state is the spec's from-state; the result's dimension, the dimension stored in every Unit._known entry and its permanence are compared after each step. Deeper random behaviours come from TLC's simulator. Mechanism variants of the spec (as shipped) must violate the invariant in TLC (non-vacuity). A directed configuration defines a NEW fundamental dimension in the middle of the history (dump, Dimension.define, load, convert).",
   note="Bounded depth/universe (see evidence); alpha (harness/alpha.py) is trusted to read Unit._known, .factors, .dimension; base-10 prefixes only in this model."),
 "C02": dict(engine="registry", technique="TLA+ spec (Registry.tla: free abelian group normal forms + oid injectivity) model-checked with TLC; transitions replayed on the real library comparing normal form and object identity",
   category="model_checking", design_ref="§5 C02",
   text="The group laws are the definitions of Mul/Div/Pow/Root in the spec; TLC enumerates every expression DAG up to the depth in every evaluation order; for each transition the real result must have the spec's normal form and be the very same object as any earlier result with that normal form; the table must stay duplicate-free and keyed consistently. One Dimension object per dimension and every unit reporting that object are table clauses; powers of cross-base prefix products are judged by value (Algebra.tla).",
   note="Bounded depth/universe; cross-base prefix numerics are covered under C11."),
 "C15": dict(engine="registry", technique="TLA+ spec (Registry.tla Dump/Load actions) model-checked with TLC; transitions replayed with pickle/copy/deepcopy/JSON on the real library",
   category="model_checking", design_ref="§5 C15",
   text="Dump and Load are separate spec actions interleaved with unit algebra; TLC enumerates the interleavings; every Load on the real library must return the identical object and leave the table unchanged. Histories with a Dimension.define between dump and load; a loaded unit must still report the identical dimension and prefix objects; quantities through the string-unit and JSON forms while the unit modules are imported stage by stage.",
   note="Units only in this model for now (dimensions, prefixes, quantities: see DESIGN)."),

 "C04": dict(engine="conversions", technique="TLA+ spec (Conversions.tla + MC_ConvShapes): TLC enumerates every equal-dimension unit pair within bounds over a synthetic exactly-consistent system and solves the exact size ratio from the declarations; each pair replayed on the real library; trace validation of recorded public calls against Ledger.tla (TLC)",
   category="model_checking", design_ref="§5 C04",
   text="TLC is the exhaustive small-scope enumerator and the exact-arithmetic oracle (sizes as prime-exponent vectors solved from the declarations only, consistency of the system itself checked as an invariant); every exported pair is converted by the real library in a fresh fork (cold planner caches) and again in shared processes (warm); unit identity and magnitude (1e-12) are compared whenever the conversion returns.",
   note="Synthetic system S1 only at this level (shipped definitions: see C09 and DESIGN); conditional on the conversion returning; float comparison at 1e-12."),
 "C05": dict(engine="conversions", technique="TLA+ spec (Conversions.tla): homomorphism theorems checked by TLC on the size model; TLC-enumerated pairs and triples replayed on the real library comparing the code's own results (linearity, zero, self, round trip, via intermediate); trace validation of recorded public calls against Ledger.tla (TLC)",
   category="model_checking", design_ref="§5 C05",
   text="The statement's relations are theorems of the size model (checked by TLC as invariants over all declaration subsets); on the code they are relations among its own results for every TLC-enumerated pair and triple, so they can hold where C04 has a finding.",
   note="Synthetic S1; magnitudes {3, -6, 0, 0.75, Decimal 4.5}; tolerance 1e-12."),
 "C07": dict(engine="conversions", technique="TLA+ spec (Conversions.tla outcome alphabet) with TLC enumerating partially connected declaration subsets x unit pairs; every case executed under python and python -O and the outcomes compared; trace validation of recorded public calls against Ledger.tla (TLC)",
   category="model_checking", design_ref="§5 C07",
   text="TLC enumerates configurations (subsets of a 6-declaration droppable set: 64 partially connected systems) and equal-dimension pairs; each (configuration, pair) runs on the real library in both interpreter modes; the exception class of convert/==/</+/- must lie in the spec's alphabet and the two modes must agree on outcome and value.",
   note="Quick samples 6 of the 64 configurations (seeded) ; thorough runs all 64."),
 "C08": dict(engine="conversions", technique="TLA+ spec (Conversions.tla, no memo in the deciding spec; MemoShipped.tla mechanism model for non-vacuity) model-checked with TLC; every history (interleaving of declarations, conversions, comparisons) replayed on the real library; trace validation of recorded public calls against Ledger.tla (TLC)",
   category="model_checking", design_ref="§5 C08",
   text="All interleavings of up to 3 declarations and 2 queries over 3 (quick) / 4 (thorough) single units are enumerated by TLC; each step is executed on the real library in a process holding exactly the preceding history and its outcome compared with F(decl) from the spec; repeats must be identical; for compound units outcomes in a fresh fork and after thousands of other conversions must agree. MemoShipped must violate C08_Function in TLC. Re-declarations (a later declaration of a pair replaces the earlier one) and a chain of four units with questions between distant units are part of the enumerated histories.",
   note="Node units: F fully prescribed; compound units: single-valuedness only (cold vs warm)."),

 "C03": dict(engine="quantities", technique="TLA+ spec (Quantities.tla) with TLC enumerating operator spelling x operand kind x unit cases and computing the prescribed dimension / Decimal-ness / left unit / rejection; every case replayed on the real library; trace validation of recorded public calls against Ledger.tla (TLC)",
   category="model_checking", design_ref="§5 C03",
   text="Small-scope exhaustive: every operator spelling of the API (q+q, q-q, q*q, q/q, q**n, root, unary, n*q, q*n, q/n, n/q, q*u, u*q, q/u, in_unit, six comparisons in both orders) over a pool of quantities in three magnitude kinds and compound/prefixed units; the spec prescribes outcome class, dimension, Decimal-ness and the left unit; the code's result is compared for each case.",
   note="Synthetic dyadic system S2; pool sizes in evidence; conversions the planner refuses are counted, not judged."),
 "C06": dict(engine="quantities", technique="TLA+ spec (Quantities.tla: Phys homomorphism, exact rational arithmetic) with TLC computing the SI value / truth value of every operator case; replayed on the real library and compared through alpha (magnitude x exact size); trace validation of recorded public calls against Ledger.tla (TLC): SI value of recorded products, quotients and powers, range and sign of recorded sums and differences",
   category="model_checking", design_ref="§5 C06",
   text="The pool contains the same physical values written in different convertible units and prefixes (decimal and binary); TLC computes Phys(op(a,b)) exactly; the code's result is mapped to its SI value with exact Fractions and compared (exact on dyadic data, 1e-12 otherwise; for + and - relative to the operands). Cross-scale comparisons of the Temp model are judged here as well.",
   note="Synthetic S2; offset scales excluded (C10)."),
 "C11": dict(engine="quantities", technique="TLA+ spec (Quantities.tla: a unit carries decimal and binary prefix exponents; size = prefix factor x unit size checked as a theorem by TLC) with every prefixed case replayed on the real library",
   category="model_checking", design_ref="§5 C11",
   text="All cases of the Quantities enumeration whose operands carry a prefix: the result's unit must have the normal form p**n * u**n / added prefix exponents (same base, exact) and the SI value must be prefix factor times unit (1e-9 across bases, as the statement allows). Prefix identities on offset scales: two spellings of a prefixed source convert alike, a prefixed target is the factor times the target.",
   note="Prefixes exercised: 10^3, 10^-3, 2^10 and their products/powers; registered SI and IEC tables are walked separately in the thorough tier (see evidence)."),
 "C12": dict(engine="quantities", technique="TLA+ spec (Quantities.tla: order by Phys; trichotomy and symmetry checked by TLC on the model) with every ordered pair replayed on the real library: six operators in both argument orders, hash, sorted(); trace validation of recorded public calls against Ledger.tla (TLC): each recorded == and < with its answer the other way round and the two hashes",
   category="model_checking", design_ref="§5 C12",
   text="TLC prescribes the physical order (-1/0/+1) of every commensurable pair of the pool; the code's ==, !=, <, <=, >, >= in both argument orders must be exactly the truth table of that order; equal pairs must hash equally; random mixed-unit lists must sort into physical order. Symmetry pairs include approximately(...) and Levels; node histories with re-declarations; magnitudes at the edges of the numeric types (infinities, 2**200, signed zeros).",
   note="Synthetic S2; Level/Measurement symmetry is covered in the thorough tier section of the evidence when present."),

 "C10": dict(engine="temperature", technique="TLA+ spec (Temp.tla: exact affine definitions over rationals; round trip, absolute zero, difference and monotonicity theorems checked by TLC) with TLC enumerating scale pair x prefix x magnitude x kind cases; each replayed on the real library",
   category="model_checking", design_ref="§5 C10",
   text="TLC computes the exact rational result of every conversion among K, degC, R, degF for every prefix pair and grid magnitude (incl. the absolute zeros and values below them) and the kelvin order of cross-scale pairs; the real library must agree within 1e-9 (Decimal included), return the asked unit, convert back, and order/compare consistently - in fresh forks and in shared processes in two orders.",
   note="Magnitude grid and prefixes as in evidence; equality ties across scales are not judged (rounding)."),

 "C20": dict(engine="intern", technique="TLA+ spec InternAtomic.tla (linearizable get-or-create) as the deciding spec; call/return histories recorded from the REAL library under a line-granularity scheduler are validated by TLC (trace validation, code->spec); PlusCal mechanism model InternShipped.tla for non-vacuity",
   category="model_checking", design_ref="§5 C20",
   text="Schedules of two and three threads evaluating the same new dimension/prefix/unit/logarithm/logarithmic unit are explored systematically on the real code (all 1-preemption and sampled/all 2-preemption schedules at line granularity, sampled 3-thread and random schedules; every one-preemption schedule and sampled random ones again with either thread being the process's main thread); every run's history and final table must be accepted by TLC as a behaviour of InternAtomic for some choice of linearization points. The PlusCal model of the shipped check-then-insert must violate C20_Single in TLC and the locked variant must satisfy it. A named base-unit definition evaluated by several threads is one of the constructions (a refusal with ValueError is a legitimate no-op).",
   note="Line granularity inside the measured package; lru_cache wrappers are opaque steps; a thread not back within 20 ms is treated as blocked (any synchronisation scheme is accepted, only the histories are judged)."),

 "C16": dict(engine="lr", technique="TLA+ spec LR.tla: product of the two LALR tables (shipped vs built from the grammar) explored completely by TLC, LR interpreter run on every token string up to a bound, and TLC trace validation of the shipped parser ENGINE's recorded state stacks against the shipped table; plus differential parsing",
   category="model_checking", design_ref="§5 C16",
   text="The reachable product of the two tables is finite, so TLC's exploration of it is a complete decision of table equality up to state renaming (rows, action kinds, rule signatures, start/end states, rule sets); terminals, ignore list, lexer type and tree options are compared as constants in the same model; every token string up to the bound is run through both tables; the shipped engine's feed_token is recorded (no source edit) and TLC checks each recorded run is a behaviour of the shipped table; trees of shipped vs fresh parser are compared on instantiations of all those strings and on generated text. Terminals whose text differs are compared by behaviour (every one-character string below U+3100 and short strings over class representatives) before a lexer difference is reported.",
   note="Fresh parser built with lark 1.3.1 through lark.tools.standalone's build function with the Makefile's options; lexer compared as data, not by automaton equivalence."),
 "C17": dict(engine="lr", technique="TLA+ spec LR.tla run mode: TLC enumerates every token string up to a bound with its accept/reject verdict under the shipped table; each is instantiated and parsed by Unit.parse/Quantity.parse twice (outcome alphabet, determinism, registries untouched, magnitude kind), plus generated and arbitrary text",
   category="model_checking", design_ref="§5 C17",
   text="Token level: exhaustive up to the bound for both start symbols, with the spec prescribing accept/reject; character level: whitespace variants, alphabet-restricted random text, arbitrary Unicode (generated, not exhausted). Only Unit/Quantity results or ParseError/KeyError are allowed; a second parse must agree; name/symbol registries must be unchanged; int tokens give int magnitudes and float tokens floats. Numbers far outside the machine ranges (20, 400, 5000 digits; huge exponents next to a binary prefix) are among the texts.",
   note="Model checking at token level; exploration strength for arbitrary text (stated in evidence)."),

 "C14": dict(engine="uncertainty", technique="TLA+ spec (Uncertainty.tla over Quantities.tla: exact rational variance by first-order propagation) with TLC enumerating operator x operand cases; each replayed on the real library comparing measurand and uncertainty^2",
   category="model_checking", design_ref="§5 C14",
   text="For +, -, *, / (measurement or plain quantity on either side) and integer powers -4..4 over a grid of measurands (both signs, zero), uncertainties (zero included) and unit re-expressions, TLC computes the exact physical measurand and variance; the real library's result is mapped to SI with exact sizes and compared (1e-9 on the variance); exceptions where the formula is finite are violations; cases run in fresh forks and in shared processes in two orders. The same cases are re-instantiated with Decimal and with mixed Decimal/float magnitudes.",
   note="Rational grid; the code's float square root is squared by alpha; independence of inputs is the property's own assumption."),

 "C19": dict(engine="names", technique="TLA+ spec Names.tla (validate-then-commit declarations, lookups as a function of the registries) model-checked with TLC; every transition replayed on the real library (spec->code) and declaration/lookup traces recorded while the shipped modules import under several orders validated by TLC (code->spec)",
   category="model_checking", design_ref="§5 C19",
   text="All orders of anonymous construction, define/derive/alias/named construction and lookups over a small universe, including every failing call (taken name, taken symbol, symbol with a space, non-string symbol in every argument position), are enumerated by TLC; after each real call the lookup tables, the names/symbols objects report, uniqueness over time and atomicity of failures are compared. The declarations and probing lookups made during import of the shipped modules (one real subprocess per import order) are recorded from outside and checked by TLC against the same clauses. The dimension registry (Dimension.define / derive / named) and snapshot histories (pickle an object, declare further names, load the pickle: nothing may be rewound) are modelled and replayed the same way.",
   note="Universe and depth in evidence; dimensions' names are not modelled (Dimension.derive has no failure mode); orphan intern entries are a separate clause."),

 "C18": dict(engine="levels", technique="TLA+ spec Levels.tla (the level as an exact rational k*(j/12)/value(prefix); monotonicity, round-trip and zero-at-reference theorems checked by TLC) with TLC enumerating family x reference x lattice point; each replayed on the real library through alpha (50-digit exponential map)",
   category="model_checking", design_ref="§5 C18",
   text="TLC decides the definitional structure exactly (k by dimension class, direction of the logarithm's prefix, base, normalisation of the reference) and exports the exact level for every case; alpha builds the quantity reference*base**(j/12) with 50-digit decimals, in the reference's unit and in another convertible unit, and the code's level, quantify(), both round trips and level==quantity are compared at 1e-9; all references of a family also run in one process in both orders. Bases 10, e, 2 and the unregistered 3 and 16; float, Decimal and int magnitudes.",
   note="The transcendental step is alpha's (decimal module, independent of math.log); TLC's share is the linear part, as stated in DESIGN §9.1."),

 "C13": dict(engine="text", technique="TLA+ spec Text.tla (the documented symbol resolution order over the library's REAL symbol tables as code-point sequences): TLC enumerates every registered prefix x unit symbol and computes the collisions; the model is conformance-checked against Unit.resolve_symbol on every such string; str()/parse round trips, spellings and quantities replayed on the real library",
   category="model_checking", design_ref="§5 C13",
   text="Registry-exhaustive at the symbol level (TLC decides, for every prefix x unit symbol, what the concatenation str() writes reads back as); on the implementation every prefix x named unit x exponent (sampled in quick, exhaustive in thorough), two-term products, spellings of one expression and quantities are rendered and parsed back and judged by SameScale (identical object or an equal unit); module sets are imported both from scratch and incrementally in one process.",
   note="Text is never compared; the equal-unit case trusts the library's conversion for a ratio of 1; compound expressions and spellings are sampled."),

 "C09": dict(engine="defgraph", technique="TLA+ spec DefGraph.tla: the declarations intercepted while the shipped modules import are constants on an integer log-lattice; TLC solves unit sizes from the declarations (grounding from the SI base units, one unit per transition) and checks every declaration against that solution and every base unit for groundedness; alarms re-confirmed in exact Fractions; conversions to and from the coherent SI unit executed on the real library",
   category="model_checking", design_ref="§5 C09",
   text="Every declared equivalence (tree edge or not) must agree with the sizes TLC solves from the other declarations within 1e-5 per exponent degree, which bounds every cycle of the definition graph; every base unit must be reachable from the SI base units through the declarations; on the implementation every named unit of a physical dimension is converted to and from its coherent SI unit and the value compared with the solved size.",
   note="Lattice step 1e-6 (quantisation added on the lenient side; exact re-confirmation before any VIOLATION); literals taken as written; offsets of temperature scales are C10's subject."),
}
BUILT = set(CHECKS)
m = {"version": 1, "setup_cmd": "./setup.sh",
 "hooks": {"guard": "MEASURED_VERIF",
   "enable": "no source hooks: recorder/scheduler are installed from /verif/harness by monkeypatching when MEASURED_VERIF=1 (set by ./check)",
   "baseline_off_cmd": "cd /repo && /venv/bin/python -m pytest -ra -q -p no:cacheprovider --timeout=900 --continue-on-collection-errors",
   "source_commits": [], "add_only": True},
 "engines": [
   {"name": "conversions", "path": "spec/Conversions.tla spec/MC_ConvNodes.tla spec/MC_ConvShapes.tla spec/MemoShipped.tla harness/conversions.py", "serves_properties": ["C04", "C05", "C07", "C08"], "kind_free_text": "TLC enumeration + exact oracle + replay on the real library (python and python -O)"},
   {"name": "quantities", "path": "spec/Num.tla spec/Quantities.tla spec/MC_Quantities.tla harness/quantities.py", "serves_properties": ["C03", "C06", "C11", "C12"], "kind_free_text": "TLC as exhaustive small-scope enumerator and exact-arithmetic oracle + replay on the real library"},
   {"name": "temperature", "path": "spec/Temp.tla spec/MC_Temp.tla harness/temperature.py", "serves_properties": ["C10"], "kind_free_text": "TLC exact affine oracle + replay"},
   {"name": "intern", "path": "spec/InternAtomic.tla spec/MC_InternTrace.tla spec/InternShipped.tla harness/sched.py harness/intern.py", "serves_properties": ["C20"], "kind_free_text": "systematic schedule exploration of the real code + TLC trace validation (linearizability)"},
   {"name": "lr", "path": "spec/LR.tla spec/MC_LR.tla harness/lr.py", "serves_properties": ["C16", "C17"], "kind_free_text": "complete product of LALR tables + LR interpreter + engine trace validation + differential parsing"},
   {"name": "uncertainty", "path": "spec/Uncertainty.tla spec/MC_Uncertainty.tla harness/uncertainty.py", "serves_properties": ["C14"], "kind_free_text": "TLC exact variance oracle + replay"},
   {"name": "names", "path": "spec/Names.tla spec/MC_Names.tla spec/MC_NamesTrace.tla harness/names.py harness/names_recorder.py", "serves_properties": ["C19"], "kind_free_text": "TLC model checking + replay + TLC trace validation of import-time declarations"},
   {"name": "levels", "path": "spec/Levels.tla spec/MC_Levels.tla harness/levels.py", "serves_properties": ["C18"], "kind_free_text": "TLC exact linear oracle + replay through a high-precision exponential map"},
   {"name": "text", "path": "spec/Text.tla spec/MC_Text.tla harness/text.py", "serves_properties": ["C13"], "kind_free_text": "TLC collision enumeration over real symbol tables + conformance of the resolution model + render/parse replay"},
   {"name": "defgraph", "path": "spec/DefGraph.tla spec/MC_DefGraph.tla harness/defgraph.py", "serves_properties": ["C09"], "kind_free_text": "TLC solves and checks the shipped definition graph on a log-lattice; exact re-confirmation; conversions on the real library"},
   {"name": "ledger", "path": "spec/Ledger.tla spec/MC_LedgerTrace.tla harness/ledger.py harness/ledger_driver.py harness/ops_recorder.py", "serves_properties": ["C03", "C04", "C05", "C06", "C07", "C08", "C12"], "kind_free_text": "TLC trace validation (code->spec) of recorded public calls - a seeded random program over the shipped units and the repository's own test suite - against a running definition-graph spec that solves unit sizes from the declarations"},
   {"name": "registry", "path": "spec/Registry.tla spec/MC_Registry.tla harness/registry.py harness/alpha.py", "serves_properties": ["C01", "C02", "C15"], "kind_free_text": "TLC model checking + spec->code replay of every transition (fork tree)"},
 ],
 "checks": [], "notes": "Every check: ./check <id> [--tier quick|thorough]; exit 0 held / 1 VIOLATION / 2 machinery failure. known_findings.txt lists genuine defects left unrepaired and repairs made.",
 "not_applicable": []}
for p in props:
    i = p["id"]
    if i in CHECKS:
        c = CHECKS[i]
        m["checks"].append({"property_id": i, "quick_cmd": "./check %s --tier quick" % i,
          "thorough_cmd": "./check %s --tier thorough" % i, "evidence_file": "evidence/%s.json" % i,
          "replay_cmd_template": "./check %s --replay {path}" % i, "engine": c["engine"],
          "level_claimed": {"category": c["category"], "text": c["text"], "design_ref": c["design_ref"]},
          "level_note": c["note"], "technique": c["technique"]})
    else:
        m["not_applicable"].append({"property_id": i, "reason": "not claimed"})
json.dump(m, open(os.path.join(V, "MANIFEST.json"), "w"), indent=1)
try:
    import jsonschema
    jsonschema.validate(m, json.load(open("/root/.vp/MANIFEST.schema.json")))
    print("MANIFEST valid:", len(m["checks"]), "checks,", len(m["not_applicable"]), "not applicable")
except ImportError:
    print("jsonschema missing; not validated")
