#!/usr/bin/env python3
"""Regenerate MANIFEST.json from the table below and validate it against the schema."""
import json, os, subprocess, sys
V = os.path.dirname(os.path.dirname(os.path.abspath(__file__)))
props = [json.loads(l) for l in open(os.path.join(V, "properties.jsonl"))]

CHECKS = {
 "C01": dict(engine="registry", technique="TLA+ spec (Registry.tla) model-checked with TLC; every transition of the state graph replayed on the real library and the intern table compared (spec->code conformance)",
   category="model_checking", design_ref="§5 C01",
   text="All histories of public unit operations up to a bounded depth over a small universe chosen to contain the dangerous shapes are enumerated by TLC from the Registry specification; every transition is executed on the real library in a process whose state is the spec's from-state; the result's dimension, the dimension stored in every Unit._known entry and its permanence are compared after each step. Deeper random behaviours come from TLC's simulator. Mechanism variants of the spec (as shipped) must violate the invariant in TLC (non-vacuity).",
   note="Bounded depth/universe (see evidence); alpha (harness/alpha.py) is trusted to read Unit._known, .factors, .dimension; base-10 prefixes only in this model."),
 "C02": dict(engine="registry", technique="TLA+ spec (Registry.tla: free abelian group normal forms + oid injectivity) model-checked with TLC; transitions replayed on the real library comparing normal form and object identity",
   category="model_checking", design_ref="§5 C02",
   text="The group laws are the definitions of Mul/Div/Pow/Root in the spec; TLC enumerates every expression DAG up to the depth in every evaluation order; for each transition the real result must have the spec's normal form and be the very same object as any earlier result with that normal form; the table must stay duplicate-free and keyed consistently.",
   note="Bounded depth/universe; cross-base prefix numerics are covered under C11."),
 "C15": dict(engine="registry", technique="TLA+ spec (Registry.tla Dump/Load actions) model-checked with TLC; transitions replayed with pickle/copy/deepcopy/JSON on the real library",
   category="model_checking", design_ref="§5 C15",
   text="Dump and Load are separate spec actions interleaved with unit algebra; TLC enumerates the interleavings; every Load on the real library must return the identical object and leave the table unchanged.",
   note="Units only in this model for now (dimensions, prefixes, quantities: see DESIGN)."),
}
BUILT = set(CHECKS)
m = {"version": 1, "setup_cmd": "./setup.sh",
 "hooks": {"guard": "MEASURED_VERIF",
   "enable": "no source hooks: recorder/scheduler are installed from /verif/harness by monkeypatching when MEASURED_VERIF=1 (set by ./check)",
   "baseline_off_cmd": "cd /repo && /venv/bin/python -m pytest -ra -q -p no:cacheprovider --timeout=900 --continue-on-collection-errors",
   "source_commits": [], "add_only": True},
 "engines": [
   {"name": "registry", "path": "spec/Registry.tla spec/MC_Registry.tla harness/registry.py harness/alpha.py", "serves_properties": ["C01", "C02", "C15"], "kind_free_text": "TLC model checking + spec->code replay of every transition (fork tree)"},
 ],
 "checks": [], "notes": "Every check: ./check <id> [--tier quick|thorough]; exit 0 held / 1 VIOLATION / 2 machinery failure. known_findings.txt lists genuine defects left unrepaired and repairs made.",
 "not_applicable": []}
for p in props:
    i = p["id"]
    if i in CHECKS:
        c = CHECKS[i]
        m["checks"].append({"property_id": i, "quick_cmd": "./check %s --tier quick" % i,
          "thorough_cmd": "./check %s --tier thorough" % i, "evidence_file": "evidence/%s.json" % i,
          "replay_cmd_template": "./check %s --replay {path}" % i, "engine": c["engine"],
          "level_claimed": {"category": c["category"], "text": c["text"], "design_ref": c["design_ref"]},
          "level_note": c["note"], "technique": c["technique"]})
    else:
        m["not_applicable"].append({"property_id": i, "reason": "check not built yet (build in progress; planned per DESIGN §5)"})
json.dump(m, open(os.path.join(V, "MANIFEST.json"), "w"), indent=1)
try:
    import jsonschema
    jsonschema.validate(m, json.load(open("/root/.vp/MANIFEST.schema.json")))
    print("MANIFEST valid:", len(m["checks"]), "checks,", len(m["not_applicable"]), "not applicable")
except ImportError:
    print("jsonschema missing; not validated")
