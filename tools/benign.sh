#!/bin/sh
# tools/benign.sh <name> [checks...]: apply benign/<name>/patch.diff to a scratch worktree of /repo HEAD and run the quick
# checks against it (VERIF_REPO); a behaviour-preserving change must leave every check at exit 0.
cd "$(dirname "$0")/.."
n=$1; shift
checks=${*:-C01 C02 C03 C04 C05 C06 C07 C08 C09 C10 C11 C12 C13 C14 C15 C16 C17 C18 C19 C20}
wt=/tmp/wt/_benign_$n
git -C /repo worktree remove --force $wt 2>/dev/null
git -C /repo worktree add -q --detach $wt HEAD || exit 2
git -C $wt apply --3way $PWD/benign/$n/patch.diff >/dev/null 2>&1 || git -C $wt apply $PWD/benign/$n/patch.diff || { echo "$n: patch does not apply"; git -C /repo worktree remove --force $wt; exit 2; }
mkdir -p /tmp/benign_logs
echo $checks | tr ' ' '\n' | VERIF_REPO=$wt xargs -P ${BENIGN_PAR:-4} -I{} sh -c './check {} --tier quick > /tmp/benign_logs/'$n'_{}.log 2>&1; echo "'$n' {} rc=$? $(grep -c ^VIOLATION /tmp/benign_logs/'$n'_{}.log)"'
git -C /repo worktree remove --force $wt
git checkout -- evidence 2>/dev/null
