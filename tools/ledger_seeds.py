#!/venv/bin/python
"""Robustness sweep of the Ledger trace validation: records the random program for several seeds, validates each once
with TLC and reports every clause (of every property) that known_findings.txt does not list.  Not a registered check:
used to look for false alarms of the ledger on the unchanged tree beyond the seeds the checks use.
usage: tools/ledger_seeds.py <first-seed> <last-seed> [steps]"""
import os, sys, collections
HERE = os.path.dirname(os.path.abspath(__file__))
sys.path.insert(0, os.path.join(HERE, "..", "harness"))
import core, ledger

PROPS = ["C03", "C04", "C05", "C06", "C07", "C08", "C12"]


def main():
    a, b = int(sys.argv[1]), int(sys.argv[2])
    steps = int(sys.argv[3]) if len(sys.argv) > 3 else 2500
    findings = {p: core.load_findings(p) for p in PROPS}
    bad = 0
    for seed in range(a, b + 1):
        wd = core.workdir("ledger_seeds_%d" % seed)
        evs = ledger.record_driver(wd, seed, steps)
        real = core.run_tlc
        cache = {}

        def once(*args, **kw):
            if "res" not in cache:
                cache["res"] = real(*args, **kw)
            return cache["res"]
        ledger.run_tlc = once
        unlisted = collections.OrderedDict()
        known = set()
        try:
            for p in PROPS:
                v = core.Verdict(p, "quick", seed)
                done, _ = ledger.validate(v, p, evs, "seed%d" % seed, wd)
                for x in v.violations:
                    f = core.match_finding(findings[p], x["key"])
                    if f:
                        known.add(f["key"])
                    else:
                        unlisted.setdefault((p, x["key"]), x["detail"])
        finally:
            ledger.run_tlc = real
        print("seed %d: %d events, judged %s, known findings seen %d, unlisted %d" % (
            seed, done["events"], done["cnt"], len(known), len(unlisted)), flush=True)
        for (p, k), d in list(unlisted.items())[:20]:
            print("  UNLISTED %s %s | %s" % (p, k[:300], d[:300]), flush=True)
        bad += len(unlisted)
    sys.exit(1 if bad else 0)


main()
