#!/usr/bin/env python3
"""benign/RESULTS.md from the log of `for n in benign/*: tools/benign.sh n` (lines '<name> <check> rc=<rc> <violations>')."""
import collections, json, os, sys
V = os.path.dirname(os.path.dirname(os.path.abspath(__file__)))
log = sys.argv[1]
res = collections.OrderedDict()
for l in open(log):
    p = l.split()
    if len(p) >= 4 and p[2].startswith("rc="):
        res.setdefault(p[0], {})[p[1]] = (int(p[2][3:]), int(p[3]))
out = ["# Behaviour-preserving changes: every quick check must stay quiet", "",
       "`tools/benign.sh <name>` applies `benign/<name>/patch.diff` to a scratch worktree of /repo HEAD (%s) and runs the twenty quick checks against it." % os.popen("git -C /repo log --format=%h -1").read().strip(), "",
       "| change | what it does | checks run | exit 0 | alarms |", "|---|---|---|---|---|"]
for n, r in res.items():
    m = json.load(open(os.path.join(V, "benign", n, "meta.json")))
    bad = sorted(c for c, (rc, nv) in r.items() if rc != 0)
    out.append("| %s | %s | %d | %d | %s |" % (n, m["summary"][:160].replace("|", "/").replace("\n", " "), len(r), sum(1 for rc, _ in r.values() if rc == 0), ", ".join(bad) or "none"))
open(os.path.join(V, "benign", "RESULTS.md"), "w").write("\n".join(out) + "\n")
print("\n".join(out[-len(res):]))
