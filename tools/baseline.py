#!/venv/bin/python
"""Run the repository's pinned test command (guard OFF) and compare with BASELINE.json stable_pass.
Usage: tools/baseline.py [repo_dir]      exit 0 iff every stable_pass test passed."""
import json, os, subprocess, sys, tempfile
import xml.etree.ElementTree as ET

repo = sys.argv[1] if len(sys.argv) > 1 else "/repo"
base = json.load(open("/root/.vp/BASELINE.json"))
env = dict(os.environ)
env.pop("MEASURED_VERIF", None)
with tempfile.TemporaryDirectory() as td:
    junit = os.path.join(td, "j.xml")
    cmd = ["/venv/bin/python", "-m", "pytest", "-ra", "-q", "-p", "no:cacheprovider", "--timeout=900",
           "--continue-on-collection-errors", "--junitxml=" + junit]
    e2 = dict(env)
    if repo != "/repo":
        e2["PYTHONPATH"] = os.path.join(repo, "src")
    p = None
    for attempt in range(3):   # the suite occasionally hangs in a hypothesis test on the unchanged tree as well
        try:
            p = subprocess.run(cmd, cwd=repo, env=e2, stdout=subprocess.PIPE, stderr=subprocess.STDOUT, text=True, timeout=400)
            break
        except subprocess.TimeoutExpired:
            subprocess.run(["pkill", "-f", "junitxml=" + junit])
    if p is None:
        print("suite timed out three times")
        sys.exit(2)
    tail = p.stdout.strip().splitlines()[-3:]
    passed = set()
    for tc in ET.parse(junit).getroot().iter("testcase"):
        if not any(ch.tag in ("failure", "error", "skipped") for ch in tc):
            passed.add("%s::%s" % (tc.get("classname"), tc.get("name")))
import shutil
for f in os.listdir(repo):
    if f.startswith(".coverage"):
        os.remove(os.path.join(repo, f))
# hypothesis' example database would replay a once-found flaky failure in every later run
shutil.rmtree(os.path.join(repo, ".hypothesis"), ignore_errors=True)
want = set(base["stable_pass"])
missing = sorted(want - passed)
print("\n".join(tail))
print("stable_pass=%d passed_now=%d missing=%d" % (len(want), len(passed & want), len(missing)))
for m in missing[:20]:
    print("  MISSING", m)
sys.exit(1 if missing else 0)
