#!/venv/bin/python
"""Seeded-change management.

  seed.py confirm <src_dir> <name>        confirm a candidate (patch.diff, demo.py, meta.json in src_dir) in a scratch
                                          worktree: suite still passes, demo fails with / passes without; store it as
                                          /verif/seeded/<name>/
  seed.py run <name> <check> [...]        apply seeded/<name>/patch.diff to /repo, run ./check <check> --tier quick for
                                          each, ALWAYS revert (git checkout -- .); print DETECTED / MISSED per check
  seed.py runall [--tier quick]           run every seeded change against the checks listed in its meta.json
"""
import json
import os
import shutil
import subprocess
import sys

V = os.path.dirname(os.path.dirname(os.path.abspath(__file__)))
SCRATCH = "/tmp/wt/_confirm"


def sh(cmd, **kw):
    return subprocess.run(cmd, shell=isinstance(cmd, str), stdout=subprocess.PIPE, stderr=subprocess.STDOUT, text=True, **kw)


def confirm(src, name):
    if os.path.isdir(SCRATCH):
        sh("git -C /repo worktree remove --force %s" % SCRATCH)
    r = sh("git -C /repo worktree add -q --detach %s HEAD" % SCRATCH)
    assert r.returncode == 0, r.stdout
    try:
        env = dict(os.environ, MEASURED_SRC=SCRATCH + "/src", PYTHONDONTWRITEBYTECODE="1")
        demo = os.path.join(src, "demo.py")
        without = sh(["/venv/bin/python", demo], env=env, cwd="/tmp")
        ap = sh("git -C %s apply --3way %s" % (SCRATCH, os.path.join(src, "patch.diff")))
        if ap.returncode != 0:
            ap = sh("git -C %s apply %s" % (SCRATCH, os.path.join(src, "patch.diff")))
        if ap.returncode != 0:
            print("PATCH DOES NOT APPLY:\n" + ap.stdout)
            return 1
        with_ = sh(["/venv/bin/python", demo], env=env, cwd="/tmp")
        base = sh([os.path.join(V, "tools", "baseline.py"), SCRATCH])
        ok_tests = base.returncode == 0
        FLAKY = "tests.test_parsing::test_each_unit_roundtrips"   # hypothesis test, flaky on the unchanged tree as well
        tries = 0
        while not ok_tests and tries < 2:
            missing = [l.split("MISSING", 1)[1].strip() for l in base.stdout.splitlines() if "MISSING" in l]
            if missing != [FLAKY]:
                break
            base = sh([os.path.join(V, "tools", "baseline.py"), SCRATCH])
            ok_tests = base.returncode == 0
            tries += 1
        print("demo without change: rc=%d; with change: rc=%d; suite: %s" % (without.returncode, with_.returncode,
              base.stdout.strip().splitlines()[-1] if base.stdout.strip() else "?"))
        if without.returncode != 0 or with_.returncode == 0 or not ok_tests:
            print("NOT CONFIRMED")
            print(with_.stdout[-800:])
            print(base.stdout[-800:])
            return 1
        # regenerate the patch against current HEAD so that it applies cleanly to /repo
        diff = sh("git -C %s diff HEAD -- src" % SCRATCH).stdout
        assert diff.strip(), "empty regenerated patch"
        dst = os.path.join(V, "seeded", name)
        os.makedirs(dst, exist_ok=True)
        open(os.path.join(dst, "patch.diff"), "w").write(diff)
        shutil.copy(demo, os.path.join(dst, "demo.py"))
        meta = json.load(open(os.path.join(src, "meta.json")))
        meta.update({"confirmed": {"demo_without_rc": without.returncode, "demo_with_rc": with_.returncode,
                                   "suite": base.stdout.strip().splitlines()[-1],
                                   "how": "scratch worktree of /repo HEAD %s: demo run without and with the patch, tools/baseline.py with the patch" %
                                          sh("git -C /repo log --format=%h -1").stdout.strip()}})
        meta.setdefault("checks", [meta.get("property")])
        json.dump(meta, open(os.path.join(dst, "meta.json"), "w"), indent=1)
        print("CONFIRMED -> seeded/%s" % name)
        return 0
    finally:
        sh("git -C /repo worktree remove --force %s" % SCRATCH)


def run(name, checks, tier="quick", inplace=False):
    """default: a scratch worktree of /repo HEAD with the patch applied, checks run with VERIF_REPO pointing at it
    (so /repo itself is never touched); --inplace: git -C /repo apply ... run ... git -C /repo checkout -- ."""
    patch = os.path.join(V, "seeded", name, "patch.diff")
    results = {}
    if inplace:
        st = sh("git -C /repo status --porcelain -- src").stdout.strip()
        if st:
            print("refusing: /repo has local changes:\n" + st)
            return 2
        ap = sh("git -C /repo apply %s" % patch)
        target, env = "/repo", dict(os.environ)
    else:
        target = "/tmp/wt/_run_%s_%d" % (name, os.getpid())
        sh("git -C /repo worktree remove --force %s" % target)
        r = sh("git -C /repo worktree add -q --detach %s HEAD" % target)
        assert r.returncode == 0, r.stdout
        ap = sh("git -C %s apply %s" % (target, patch))
        if ap.returncode != 0:      # the repository moved on since the change was stored: try a three-way merge
            ap = sh("git -C %s apply --3way %s" % (target, patch))
        env = dict(os.environ, VERIF_REPO=target)
    if ap.returncode != 0:
        print("patch does not apply: " + ap.stdout)
        if not inplace:
            sh("git -C /repo worktree remove --force %s" % target)
        return 2
    try:
        for c in checks:
            r = sh([os.path.join(V, "check"), c, "--tier", tier], cwd=V, env=env)
            hit = [l for l in r.stdout.splitlines() if l.startswith("VIOLATION")]
            results[c] = ("DETECTED" if r.returncode == 1 and hit else "MISSED" if r.returncode == 0 else "RC%d" % r.returncode)
            keys = [l.strip() for l in r.stdout.splitlines() if l.strip().startswith("key:")]
            print("%s on %s [%s]: %s %s" % (c, name, tier, results[c], keys[:3]))
            if results[c].startswith("RC"):
                print(r.stdout[-1500:])
    finally:
        if inplace:
            sh("git -C /repo checkout -- .")
            for f in os.listdir("/repo"):
                if f.startswith(".coverage"):
                    os.remove(os.path.join("/repo", f))
        else:
            sh("git -C /repo worktree remove --force %s" % target)
    # evidence/replay files written while a mutant was applied are not evidence of the real tree
    sh("git -C %s checkout -- evidence" % V)
    mf = os.path.join(V, "seeded", name, "meta.json")
    meta = json.load(open(mf))
    meta.setdefault("detection", {}).update({"%s/%s" % (c, tier): v for c, v in results.items()})
    json.dump(meta, open(mf, "w"), indent=1)
    return 0


def main():
    a = sys.argv[1:]
    if a[0] == "confirm":
        sys.exit(confirm(a[1], a[2]))
    if a[0] == "run":
        tier = "quick"
        if "--tier" in a:
            i = a.index("--tier")
            tier = a[i + 1]
            del a[i:i + 2]
        inplace = "--inplace" in a
        if inplace:
            a.remove("--inplace")
        sys.exit(run(a[1], a[2:], tier, inplace))
    if a[0] == "runall":
        tier = a[a.index("--tier") + 1] if "--tier" in a else "quick"
        for name in sorted(os.listdir(os.path.join(V, "seeded"))):
            meta = json.load(open(os.path.join(V, "seeded", name, "meta.json")))
            run(name, meta.get("checks", [meta["property"]]), tier)


if __name__ == "__main__":
    main()
