#!/usr/bin/env python3
"""Print the §4 table of DESIGN.md from the evidence files written by the last run of every check."""
import json, os
V = os.path.dirname(os.path.dirname(os.path.abspath(__file__)))
print("| id | tier | spec states | TLC transitions | real executions | non-trivial | wall |")
print("|---|---|---|---|---|---|---|")
for i in range(1, 21):
    p = os.path.join(V, "evidence", "C%02d.json" % i)
    if not os.path.exists(p):
        continue
    e = json.load(open(p))
    c = e["coverage"]
    print("| C%02d | %s | %s | %s | %s | %s | %d s |" % (i, e["tier"], f'{c["states"]:,}'.replace(",", " "), f'{c["transitions"]:,}'.replace(",", " "),
                                                   f'{c["traces_validated_against_impl"]:,}'.replace(",", " "), f'{c["distinct_nontrivial"]:,}'.replace(",", " "), e["wall_s"]))
