#!/bin/sh
# Runs every check's thorough tier in sequence and prints a one-line summary each (used with `vp run`).
cd "$(dirname "$0")/.."
for p in ${SWEEP:-C16 C17 C18 C19 C20 C12 C14 C10 C11 C03 C06 C13 C09 C08 C07 C05 C04 C15 C02 C01}; do
  start=$(date +%s)
  timeout 5400 ./check $p --tier thorough > .work_sweep_$p.log 2>&1
  rc=$?
  echo "== $p rc=$rc $(( $(date +%s) - start ))s :: $(grep -E 'thorough:|MACHINERY' .work_sweep_$p.log | tail -1)"
  grep -E '^VIOLATION|key:' .work_sweep_$p.log | head -12
done
