#!/bin/sh
# Offline setup: create scratch dir, syntax-check every spec with SANY. Nothing is downloaded or compiled.
set -e
cd "$(dirname "$0")"
mkdir -p .work evidence replays
fail=0
for f in spec/*.tla; do
  ( cd spec && tla-sany "$(basename "$f")" >/dev/null 2>&1 ) || { echo "SANY failed: $f"; fail=1; }
done
exit $fail
