"""code -> spec for the quantity layer: recorded histories of public calls validated by TLC against spec/Ledger.tla
(MC_LedgerTrace).  Two sources of histories: a seeded random program over the shipped units (ledger_driver.py) and the
repository's own test suite under the external recorder (ops_recorder.py as a pytest plugin).  The trace handed to TLC
starts with the shipped declarations (intercepted as in C09), so the unit sizes are solved inside the spec."""
import json
import math
import os
import subprocess
from fractions import Fraction

from core import MachineryError, PY, REPO, VERIF, run_isolated, run_tlc, workdir

STEP = 1e-6
PROP_OF = {"C03": "C03", "C04": "C04", "C05": "C05", "C06": "C06", "C07": "C07", "C08": "C08", "C12": "C12"}
ALSO = {"C12": ["C06"]}     # a C12 clause (order vs physical values) is also reported by C06's check


def _dummy_u():
    return {"k": "", "pl": 0, "t": [], "d": [], "sc": True}


BIG = 400000000      # TLC integers are 32-bit: lattice values beyond this are not judged (never an overflow, never a pass by accident)


def _norm_u(u):
    if u is None:
        return _dummy_u()
    sc = bool(u.get("sc")) or u.get("pl") is None
    # exponents or prefixes so large that sums of lattice values could leave the 32-bit range: excluded from value clauses
    if any(abs(e) > 12 for _, e in u["t"]) or abs(u.get("pl") or 0) > BIG or any(abs(x) > 1000 for x in u["d"]):
        sc = True
    if any(abs(e) > 1000 for _, e in u["t"]) or any(abs(x) > 1000 for x in u["d"]):
        _HUGE[0] = True             # the whole event is left out (normalise() checks the flag)
    d = [max(-1000, min(1000, int(x))) for x in u["d"]]
    t = [[n, max(-1000, min(1000, int(e)))] for n, e in u["t"]]
    return {"k": u["k"], "pl": u["pl"] if (u.get("pl") is not None and abs(u["pl"]) <= BIG) else 0, "t": t, "d": d, "sc": sc}


_HUGE = [False]


def _norm_q(q):
    if q is None:
        return {"u": _dummy_u(), "mk": "none", "lm": 0, "hm": False, "sg": 0}
    sg = q.get("sg")
    lm = q.get("lm")
    if lm is not None and abs(lm) > BIG:
        lm, sg = None, None          # a magnitude beyond 1e173 or below 1e-173: not judged
    hm = sg is not None and (sg == 0 or lm is not None)
    return {"u": _norm_u(q["u"]), "mk": q["mk"], "lm": lm if lm is not None else 0, "hm": hm, "sg": sg if sg is not None else 0}


def normalise(raw):
    """recorded events -> the homogeneous records MC_LedgerTrace reads (no nulls; validity flags instead)"""
    out = []
    for n, e in enumerate(raw):
        if _HUGE[0] and out:
            out.pop()               # the previous event involved exponents beyond +-1000: not judged
        _HUGE[0] = False
        k = e["e"]
        if k == "decl":
            okd = e["lat"] is not None and abs(e["lat"]) <= BIG and all(abs(x) <= 12 for _, x in e["t"])
            out.append({"e": "decl", "t": [[n, max(-1000, min(1000, int(x)))] for n, x in e["t"]], "lat": e["lat"] if okd else 0, "ok": okd, "text": e.get("text", ""), "id": n})
        elif k == "scale":
            out.append({"e": "scale", "b": e["b"], "id": n})
        elif k == "start":
            out.append({"e": "start", "id": n})
        elif k == "conv":
            big = e["obs"] is not None and abs(e["obs"]) > 2 * BIG
            out.append({"e": "conv", "a": _norm_u(e["a"]), "b": _norm_u(e["b"]), "out": e["out"], "obs": e["obs"] if (e["obs"] is not None and not big) else 0,
                        "ho": e["obs"] is not None and not big, "zero": bool(e["zero"]), "sign": bool(e["sign"]), "same": bool(e["same"]), "id": n})
        elif k == "arith":
            r = e.get("r")
            if r is None:
                rt, rq = "none", _norm_q(None)
            elif "u" in r:
                rt, rq = "q", _norm_q(r)
            elif "unit" in r:
                rt, rq = "unit", {"u": _norm_u(r["unit"]), "mk": "none", "lm": 0, "hm": False, "sg": 0}
            elif "num" in r:
                rt, rq = "num", {"u": _dummy_u(), "mk": r["num"], "lm": 0, "hm": False, "sg": 0}
            else:
                rt, rq = "foreign", _norm_q(None)
            if e["op"] in ("pow", "root") and (e.get("n") is None or abs(e["n"]) > 12):
                rt = "foreign"      # exponent out of the judged range
            out.append({"e": "arith", "op": e["op"], "l": _norm_q(e["l"]), "rt": rt, "r": rq, "n": e["n"] if (e.get("n") is not None and abs(e["n"]) <= 12) else 0,
                        "out": e["out"], "hr": e.get("res") is not None, "res": _norm_q(e.get("res")), "id": n})
        elif k == "cmp":
            out.append({"e": "cmp", "op": e["op"], "l": _norm_q(e["l"]), "r": _norm_q(e["r"]), "out": e["out"] or "none",
                        "rev": e.get("rev") or "none", "hq": e.get("hq") or "NA", "id": n})
    if _HUGE[0] and out:
        out.pop()
    _HUGE[0] = False
    return out


def shipped_events():
    """the library's own declarations, in import order, as decl events (same interception as C09)"""
    import defgraph
    info = run_isolated(defgraph.intercept, None)
    evs = []
    for d in info["decls"]:
        fr = Fraction(d["ratio"][0], d["ratio"][1])
        lat = int(round(math.log(fr.numerator / fr.denominator) / STEP)) if fr > 0 else None
        evs.append({"e": "decl", "t": sorted([b, e] for b, e in d["t"].items() if e), "lat": lat, "text": d["text"]})
    evs.append({"e": "start"})
    return evs


def record_driver(wd, seed, steps, optimised=False):
    out = os.path.join(wd, "driver_%d%s.ndjson" % (seed, "_O" if optimised else ""))
    env = dict(os.environ, MEASURED_VERIF="1", PYTHONDONTWRITEBYTECODE="1", PYTHONHASHSEED="0")
    p = subprocess.run([PY] + (["-O"] if optimised else []) + [os.path.join(VERIF, "harness", "ledger_driver.py"), REPO, out, str(seed), str(steps)],
                       env=env, cwd=wd, stdout=subprocess.PIPE, stderr=subprocess.STDOUT, text=True, timeout=1800)
    if p.returncode != 0 or not os.path.exists(out):
        raise MachineryError("ledger driver failed (rc=%s):\n%s" % (p.returncode, p.stdout[-2000:]))
    return [json.loads(l) for l in open(out, encoding="utf-8")]


def record_suite(wd):
    out = os.path.join(wd, "suite.ndjson")
    env = dict(os.environ, MEASURED_VERIF="1", VERIF_OPS_OUT=out, HYPOTHESIS_STORAGE_DIRECTORY=os.path.join(wd, "hyp"),
               PYTHONPATH=os.path.join(REPO, "src") + os.pathsep + os.path.join(VERIF, "harness"), PYTHONDONTWRITEBYTECODE="1",
               COVERAGE_FILE=os.path.join(wd, "cov"))
    p = None
    for attempt in range(2):    # the suite occasionally hangs in a hypothesis test (also on the unchanged tree)
        try:
            p = subprocess.run([PY, "-m", "pytest", "-q", "-p", "no:cacheprovider", "-n", "0", "--no-cov", "-p", "ops_recorder",
                                "--rootdir", REPO, os.path.join(REPO, "tests"), os.path.join(REPO, "src")],
                               cwd=wd, env=env, stdout=subprocess.PIPE, stderr=subprocess.STDOUT, text=True, timeout=900)
            break
        except subprocess.TimeoutExpired:
            continue
    if p is None or not os.path.exists(out) or os.path.getsize(out) == 0:
        raise MachineryError("recording the test suite failed: %s" % (p.stdout[-1500:] if p else "timeout"))
    evs = []
    for l in open(out, encoding="utf-8"):
        try:
            evs.append(json.loads(l))
        except ValueError:
            pass        # a test that kills its process mid-line
    return evs, (p.stdout.strip().splitlines() or [""])[-1]


def _describe(raw, test):
    e = raw
    k = e["e"]
    if k == "conv":
        return "in_unit: %s -> %s: %s (observed lattice ratio %s)%s" % (e["a"]["k"], e["b"]["k"], e["out"], e["obs"], test)
    if k == "arith":
        r = e.get("r") or {}
        rk = r["u"]["k"] if "u" in r else r.get("unit", {}).get("k") if "unit" in r else r.get("num", "")
        return "%s: [%s %s] with [%s] n=%s -> %s %s%s" % (e["op"], e["l"]["mk"], e["l"]["u"]["k"], rk, e.get("n"), e["out"],
                                                         (e.get("res") or {}).get("u", {}).get("k"), test)
    if k == "cmp":
        return "%s: [sg %s lm %s %s] vs [sg %s lm %s %s] -> %s (the other way round: %s; hashes equal: %s)%s" % (
            e["op"], e["l"]["sg"], e["l"]["lm"], e["l"]["u"]["k"], e["r"]["sg"], e["r"]["lm"], e["r"]["u"]["k"], e["out"], e.get("rev"), e.get("hq"), test)
    return json.dumps(e)[:200]


def _key(clause, raw, through=None):
    """<clause without the property>:<the units involved> - specific to the call; units the program defined itself are
    followed by the shipped units they were defined through (so that a finding about a shipped unit also identifies the
    program's units derived from it)"""
    body = clause.split(":", 1)[1]
    if body.startswith("ndivq:"):
        return body                 # the listed n / q defect, under its established key
    k = raw["e"]
    if k == "conv":
        key = "trace:%s:%s->%s" % (body, raw["a"]["k"], raw["b"]["k"])
        own = sorted({n for n, _ in raw["a"]["t"] + raw["b"]["t"] if through and through.get(n)})
        if own:
            key += " [%s]" % "; ".join("%s<%s" % (n, ",".join(sorted(through[n]))) for n in own)
        return key
    if k == "arith":
        r = raw.get("r") or {}
        rk = r["u"]["k"] if "u" in r else r.get("unit", {}).get("k", "") if "unit" in r else r.get("num", "")
        return "trace:%s:%s,%s" % (body, raw["l"]["u"]["k"], rk)
    return "trace:%s:%s,%s" % (body, raw["l"]["u"]["k"], raw["r"]["u"]["k"])


def validate(v, prop, raw_events, label, wd):
    """hand shipped declarations + recorded events to TLC; report the clauses of `prop` as violations"""
    raw = shipped_events() + [e for e in raw_events if e["e"] in ("decl", "scale", "conv", "arith", "cmp", "test")]
    # remember which test each event belongs to (for the detail text only)
    test_of, cur = {}, ""
    kept = []
    for e in raw:
        if e["e"] == "test":
            cur = e["id"]
            continue
        test_of[len(kept)] = cur
        kept.append(e)
    norm = normalise(kept)
    trace = os.path.join(wd, "ledger_%s.ndjson" % label)
    with open(trace, "w", encoding="utf-8") as f:
        for e in norm:
            f.write(json.dumps(e, ensure_ascii=True) + "\n")
    res = run_tlc("MC_LedgerTrace", wd=workdir("tlc_ledger_" + label), env={"VERIF_TRACE_FILE": trace}, workers=1, timeout=3000)
    if res.errors or res.violated or not res.exports.get("DONE"):
        raise MachineryError("MC_LedgerTrace (%s) failed: %s %s (log %s)" % (label, res.errors[:2], res.violated, res.log))
    done = res.exports["DONE"][-1]
    if done["events"] != len(norm):
        raise MachineryError("MC_LedgerTrace consumed %d of %d events" % (done["events"], len(norm)))
    v.add_tlc(res, "MC_LedgerTrace[%s]: %d events" % (label, len(norm)))
    cnt = done["cnt"]
    nprog = len(norm)
    v.impl += nprog
    v.evaluations += nprog
    v.nontrivial += cnt["convJudged"] + cnt["arithValue"] + cnt["cmpJudged"]
    v.extra.setdefault("ledger", {})[label] = {"events": nprog, "counts": cnt, "sized_base_units": done["sized"], "tainted": done["tainted"],
                                               "pending_declarations": done["pending"], "epochs": done["epochs"],
                                               "bad_clauses_all_properties": len(res.exports.get("BAD", []))}
    mine = {prop} | {p for p, also in ALSO.items() if prop in also}
    seen = set()
    for b in res.exports.get("BAD", []):
        cp = b["clause"].split(":", 1)[0]
        if cp not in mine:
            continue
        r = kept[b["id"]]
        key = _key(b["clause"], r, done.get("through"))
        if key in seen:
            continue
        seen.add(key)
        t = test_of.get(b["id"], "")
        v.violations.append({"prop": prop, "key": key, "detail": _describe(r, (" during " + t) if t else ""), "path": [r]})
    return done, res


def run(v, prop, tier, seed):
    """the ledger step of a property's check: quick = one random program; thorough = longer programs with several seeds
    and the repository's own test suite"""
    wd = workdir("ledger")
    progs = [(seed, 2500)] if tier == "quick" else [(seed, 8000), (seed + 1, 8000)]
    for s, n in progs:
        evs = record_driver(wd, s, n)
        validate(v, prop, evs, "driver%d" % s, wd)
        if prop == "C07":
            # the same program under python -O: the recorded histories must be identical, event for event
            evs_o = record_driver(wd, s, n, optimised=True)
            a = [json.dumps(e, sort_keys=True) for e in evs if e["e"] in ("decl", "scale", "conv", "arith", "cmp")]
            b = [json.dumps(e, sort_keys=True) for e in evs_o if e["e"] in ("decl", "scale", "conv", "arith", "cmp")]
            v.impl += len(b)
            v.evaluations += len(b)
            diff = next((i for i, (x, y) in enumerate(zip(a, b)) if x != y), None if len(a) == len(b) else min(len(a), len(b)))
            v.extra["ledger"]["driver%d" % s]["events_under_minus_O"] = len(b)
            v.extra["ledger"]["driver%d" % s]["first_difference_under_minus_O"] = diff
            if diff is not None:
                ea = json.loads(a[diff]) if diff < len(a) else {"e": "(end of the history)"}
                eb = json.loads(b[diff]) if diff < len(b) else {"e": "(end of the history)"}
                what = ea.get("op") or ea["e"]
                v.violations.append({"prop": "C07", "key": "trace:mode-differs:%s:%s" % (ea["e"], what),
                                     "detail": "event %d of the recorded program differs between python and python -O: %s  vs  %s" % (
                                         diff, _describe(ea, "") if ea["e"] in ("conv", "arith", "cmp") else ea, _describe(eb, "") if eb["e"] in ("conv", "arith", "cmp") else eb),
                                     "path": [ea, eb]})
    if tier != "quick":
        evs, summary = record_suite(wd)
        validate(v, prop, evs, "suite", wd)
        v.extra["ledger"]["suite"]["pytest_summary"] = summary
    v.assumptions.append("ledger: recorded public calls (outermost call per kind; identical events within an epoch once) are validated by TLC against "
                         "spec/Ledger.tla; unit sizes are solved inside the spec from the shipped declarations followed by the program's own; "
                         "lattice step 1e-6 in ln; values judged only when every base unit involved is sized and untainted and no offset scale is involved")
