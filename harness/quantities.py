"""Quantities machine: C03 C06 C11 C12 (spec/Quantities.tla, MC_Quantities)."""
import json
import os
import random
from decimal import Decimal
from fractions import Fraction

from core import MachineryError, Verdict, replay_histories, require_ok, run_tlc, workdir


def pvf(pv):
    return Fraction(2) ** pv[0] * Fraction(3) ** pv[1] * Fraction(5) ** pv[2]


def frac(m):
    return Fraction(m[0], m[1])


def close(x, y, rel=1e-12):
    x, y = Fraction(x), Fraction(y)
    if x == y:
        return True
    return abs(x - y) <= Fraction(rel) * max(abs(x), abs(y))


class QuantDriver:
    SPEC = "quantities:QuantDriver"

    def __init__(self, system=None, props=("C03", "C06", "C11", "C12")):
        self.kwargs = {"system": system, "props": list(props)}
        self.sys = system
        self.props = set(props)

    # ------------------------------------------------------------------ set-up
    def prepare(self):
        import alpha
        self.A = alpha
        self.m = m = alpha.measured
        import measured.si  # noqa: F401  registered decimal prefixes
        import measured.iec  # noqa: F401  registered binary prefixes
        from measured import conversions
        self.conv = conversions
        self.unit = {}
        for tok in self.sys["base"]:
            dim = alpha.dim_from_vec(self.sys["bdim"][tok])
            self.unit[tok] = dim.unit("vq" + tok + "unit", "vq" + tok)
        for c in self.sys["decls"]:
            val = 2 ** c["e"] if c["e"] >= 0 else 2.0 ** c["e"]
            self.unit[c["l"]].equals(val * self._bag(c["r"]))
        self.units = [self._unit(u) for u in self.sys["units"]]
        self.pool = [self._quantity(q) for q in self.sys["pool"]]
        self.scalars = [self._number(s) for s in self.sys["scalars"]]

    def fresh_ctx(self):
        return {}

    def _bag(self, f):
        u = self.m.One
        for tok, e in sorted(f.items()):
            if e:
                u = u * self.unit[tok] ** e
        return u

    def _unit(self, rec):
        m = self.m
        u = self._bag(rec["f"])
        if rec["p10"]:
            u = m.Prefix(10, rec["p10"]) * u
        if rec["p2"]:
            u = m.Prefix(2, rec["p2"]) * u
        return u

    def _number(self, rec):
        f = frac(rec["m"])
        if rec["k"] == "int":
            assert f.denominator == 1
            return int(f)
        if rec["k"] == "float":
            return float(f)
        return Decimal(f.numerator) / Decimal(f.denominator)

    def _quantity(self, rec):
        return self.m.Quantity(self._number(rec), self._unit(rec["u"]))

    def usize(self, unit):
        """exact size of a live unit from the S2 table (alpha side of Phys)"""
        s = Fraction(1)
        p = unit.prefix
        self.approx = False
        if p.base != 0 and p.exponent != 0:
            e = p.exponent
            if isinstance(e, float) and e != int(e):
                # a product of prefixes of different bases: the code keeps a float exponent, so the
                # scale is only numeric (the statement asks for 1e-9 there)
                s *= Fraction(float(p.base) ** e)
                self.approx = True
            else:
                s *= Fraction(p.base) ** int(e)
        for f, e in unit.factors.items():
            if f is self.m.One:
                continue
            tok = next((t for t, u in self.unit.items() if u is f), None)
            if tok is None:
                return None
            s *= pvf(self.sys["bsize"][tok]) ** e
        return s

    def dimvec(self, unit):
        return self.A.dimvec(unit.dimension)

    # ------------------------------------------------------------------ one case
    def apply(self, ev, ctx, stats):
        m = self.m
        op = ev["op"]
        mm = []
        if op == "pfx":
            return self._filter(self._pfx(ev, stats))
        if op == "meas":
            return self._filter(self._meas(ev, stats))
        a = self.pool[ev["i"] - 1]
        arec = self.sys["pool"][ev["i"] - 1]
        b = brec = None
        stats["op:" + op] = stats.get("op:" + op, 0) + 1
        if op in ("add", "sub", "mul", "div", "cmp"):
            b, brec = self.pool[ev["j"] - 1], self.sys["pool"][ev["j"] - 1]
        prefixed = bool(arec["u"]["p10"] or arec["u"]["p2"] or (brec and (brec["u"]["p10"] or brec["u"]["p2"])))
        vprop = "C11" if prefixed and "C11" in self.props and "C06" not in self.props else "C06"
        desc = self._desc(ev, arec, brec)
        if op == "cmp":
            return self._filter(self._cmp(ev, a, b, desc, stats))
        f = {
            "add": lambda: a + b, "sub": lambda: a - b, "mul": lambda: a * b, "div": lambda: a / b,
            "pow": lambda: a ** ev["n"], "root": lambda: a.root(ev["n"]),
            "neg": lambda: -a, "pos": lambda: +a, "abs": lambda: abs(a),
            "nmulq": lambda: self.scalars[ev["j"] - 1] * a, "qmuln": lambda: a * self.scalars[ev["j"] - 1],
            "qdivn": lambda: a / self.scalars[ev["j"] - 1], "ndivq": lambda: self.scalars[ev["j"] - 1] / a,
            "qmulu": lambda: a * self.units[ev["j"] - 1], "umulq": lambda: self.units[ev["j"] - 1] * a,
            "qdivu": lambda: a / self.units[ev["j"] - 1], "in_unit": lambda: a.in_unit(self.units[ev["j"] - 1]),
        }[op]
        try:
            r = f()
            out = "ok"
        except TypeError:
            r, out = None, "TypeError"
        except self.conv.ConversionNotFound:
            r, out = None, "CNF"
        except m.FractionalDimensionError:
            r, out = None, "Fractional"
        except Exception as ex:
            r, out = None, "OTHER:" + type(ex).__name__
        want = ev["out"]
        if want == "reject":
            stats["reject"] = stats.get("reject", 0) + 1
            if out not in ("TypeError", "CNF"):
                mm.append(self._mm("C03", "%s:incommensurable-not-rejected:%s" % (op, out if out != "ok" else type(r).__name__), "%s gave %r" % (desc, r if out == "ok" else out)))
            return self._filter(mm)
        if want == "Fractional":
            if out == "ok":
                # allowed only if dimensionally consistent: dimension**n must give the operand's dimension back
                dv = self.dimvec(r.unit)
                if dv is None or {k: v * ev["n"] for k, v in dv.items()} != self.dimvec(a.unit):
                    mm.append(self._mm("C03", "root:non-divisible-root-with-wrong-dimension", "%s gave unit %s" % (desc, r.unit)))
            elif out != "Fractional":
                mm.append(self._mm("C03", "root:outcome:%s" % out, "%s raised %s" % (desc, out)))
            return self._filter(mm)
        if out == "CNF" and op in ("add", "sub", "in_unit"):
            stats["unconvertible"] = stats.get("unconvertible", 0) + 1   # whether the planner succeeds is not prescribed
            return []
        if out != "ok":
            mm.append(self._mm("C03", "%s:outcome:%s" % (op, out), "%s raised %s" % (desc, out)))
            return self._filter(mm)
        if not isinstance(r, m.Quantity):
            mm.append(self._mm("C03", "%s:result-type:%s" % (op, type(r).__name__), "%s gave %r" % (desc, r)))
            return self._filter(mm)
        stats["ok"] = stats.get("ok", 0) + 1
        # --- C03: dimension, Decimal-ness, left unit
        dv = self.dimvec(r.unit)
        if dv != ev["dim"]:
            mm.append(self._mm("C03", "%s:dimension" % op, "%s has dimension %s, dimensional analysis gives %s" % (desc, dv, ev["dim"])))
        if ev["dec"] and not isinstance(r.magnitude, Decimal):
            mm.append(self._mm("C03", "%s:decimal-lost" % op, "%s has a %s magnitude although an operand is Decimal" % (desc, type(r.magnitude).__name__)))
        if op in ("add", "sub") and r.unit is not a.unit:
            mm.append(self._mm("C03", "%s:not-left-unit" % op, "%s is in %s, not the left operand's unit" % (desc, r.unit)))
        if op == "in_unit" and r.unit is not self.units[ev["j"] - 1]:
            mm.append(self._mm("C03", "in_unit:other-unit", "%s is in %s" % (desc, r.unit)))
        # --- C11: (p*u)**n is p**n * u**n, products add prefixes: the unit's normal form
        if op in ("pow", "mul", "div", "qmulu", "umulq", "qdivu", "ndivq") and prefixed:
            nf = self._nf(r.unit)
            if ev["unit"]["p10"] and ev["unit"]["p2"]:
                nf = None   # mixed bases: identity of the prefix object is not demanded, only the value (below)
            wantnf = (ev["unit"]["p10"], ev["unit"]["p2"], tuple(sorted((k, e) for k, e in ev["unit"]["f"].items() if e)))
            if nf is not None and nf != wantnf:
                mm.append(self._mm("C11", "%s:prefixed-unit-normal-form" % op, "%s has unit %s, expected %s" % (desc, nf, wantnf)))
        # --- C06 / C11: physical value
        size = self.usize(r.unit)
        if size is None:
            mm.append({"prop": "DRIFT", "key": "foreign-unit", "detail": desc})
            return self._filter(mm)
        try:
            got = Fraction(r.magnitude) * size
        except (ValueError, OverflowError):
            return self._filter(mm)
        if op == "root":
            operand = frac(ev["phys"]["r"]) * pvf(ev["phys"]["pv"])
            if not close(got ** ev["n"], operand, 1e-9):
                mm.append(self._mm(vprop, "root:value", "%s: result**%d = %s, operand = %s" % (desc, ev["n"], float(got ** ev["n"]), float(operand))))
        else:
            want_phys = frac(ev["phys"]["r"]) * pvf(ev["phys"]["pv"])
            scale = max(abs(got), abs(want_phys))
            if op in ("add", "sub"):
                # rounding is relative to the operands, not to a result that may cancel to ~0
                scale = max(scale, abs(frac(arec["m"]) * self.usize(a.unit)), abs(frac(brec["m"]) * self.usize(b.unit)))
            if got != want_phys and abs(got - want_phys) > Fraction(1e-9 if self.approx else 1e-12) * scale:
                mm.append(self._mm(vprop, "%s:physical-value" % op, "%s: SI value %s, expected %s" % (desc, float(got), float(want_phys))))
        return self._filter(mm)

    REL = {0: "disjoint", 1: "touching", 2: "partial-overlap", 3: "first-nested-in-second", 4: "second-nested-in-first", 5: "identical"}

    def _meas(self, ev, stats):
        """C12: comparisons involving a Measurement (also approximately(...) and a Level) are symmetric"""
        m = self.m
        a, b = self.pool[ev["i"] - 1], self.pool[ev["j"] - 1]
        ua, ub = frac(ev["phys"]["r"]), Fraction(ev["phys"]["pv"][0], ev["phys"]["pv"][1])
        rel = self.REL[ev["n"]]
        same_unit = a.unit is b.unit
        desc = "%s +/- %s  vs  %s +/- %s (%s)" % (self._desc({"op": "", "i": 1}, self.sys["pool"][ev["i"] - 1], None), ua,
                                                 self._desc({"op": "", "i": 1}, self.sys["pool"][ev["j"] - 1], None), ub, rel)
        try:
            x = m.Measurement(a, float(ua) if not isinstance(a.magnitude, Decimal) else Decimal(ua.numerator) / Decimal(ua.denominator))
            y = m.Measurement(b, float(ub) if not isinstance(b.magnitude, Decimal) else Decimal(ub.numerator) / Decimal(ub.denominator))
        except Exception as ex:
            return [self._mm("C12", "measurement:construction-raised:%s" % type(ex).__name__, desc)]
        mm = []
        pairs = [("measurement==measurement", x, y)]
        if ub == 0:
            pairs.append(("measurement==quantity", x, b))
        if ua == 0:
            pairs.append(("quantity==measurement", a, y))
        # the other spellings the statement names: approximately(...) and Levels (of positive quantities)
        # (on the large thorough pool every fifth pair: the relation classes repeat)
        try:
            if len(self.pool) > 100 and (ev["i"] * 31 + ev["j"] * 7 + ev["n"]) % 5:
                raise StopIteration
            if ua > 0 and a.magnitude != 0:
                rel = x.uncertainty.magnitude / abs(a.magnitude)        # approximately() takes a RELATIVE uncertainty
                pairs.append(("approximately==measurement", m.approximately(a, rel), y))
                pairs.append(("approximately==quantity", m.approximately(a, rel), b))
            levels = []
            for q0 in (a, b):
                levels.append(q0.level(m.Decibel[1 * q0.unit]) if q0.magnitude > 0 else None)
            if levels[0] is not None:
                pairs += [("level==measurement", levels[0], y), ("level==quantity", levels[0], b)]
                if levels[1] is not None:
                    pairs.append(("level==level", levels[0], levels[1]))
            if levels[1] is not None:
                pairs.append(("measurement==level", x, levels[1]))
        except StopIteration:
            pass
        except Exception as ex:
            mm.append(self._mm("C12", "measurement:level-or-approximately-construction-raised:%s" % type(ex).__name__, desc))
        for name, p, q in pairs:
            try:
                r1 = p == q
            except Exception as ex:
                r1 = "raised:" + type(ex).__name__
            try:
                r2 = q == p
            except Exception as ex:
                r2 = "raised:" + type(ex).__name__
            stats["ok"] = stats.get("ok", 0) + 1
            if r1 != r2:
                mm.append(self._mm("C12", "measurement:asymmetric-eq:%s:%s:%s" % (name, rel, "same-unit" if same_unit else "different-units"),
                                   "%s: x == y is %r but y == x is %r" % (desc, r1, r2)))
        return mm

    def _pfx(self, ev, stats):
        """a prefix written on either side of a unit that may already carry one"""
        m = self.m
        w = self.units[ev["i"] - 1]
        wrec = self.sys["units"][ev["i"] - 1]
        pre = m.Prefix(2 if ev["dec"] else 10, ev["n"])
        desc = "%s %s (%s)" % ("prefix*unit" if ev["j"] == 1 else "unit*prefix", "%d^%d" % (2 if ev["dec"] else 10, ev["n"]), self._desc({"op": "", "i": 1}, {"u": wrec, "m": [1, 1], "k": ""}, None))
        try:
            r = pre * w if ev["j"] == 1 else w * pre
        except Exception as ex:
            return [self._mm("C11", "pfx:raised:%s" % type(ex).__name__, desc)]
        stats["ok"] = stats.get("ok", 0) + 1
        mm = []
        if not isinstance(r, m.Unit):
            return [self._mm("C11", "pfx:result-type:%s" % type(r).__name__, desc)]
        mixed = bool(ev["unit"]["p10"] and ev["unit"]["p2"])
        nf = None if mixed else self._nf(r)
        wantnf = (ev["unit"]["p10"], ev["unit"]["p2"], tuple(sorted((k, e) for k, e in ev["unit"]["f"].items() if e)))
        if nf is not None and nf != wantnf:
            mm.append(self._mm("C11", "pfx:%s:normal-form" % ("left" if ev["j"] == 1 else "right"), "%s gave %s, expected %s" % (desc, nf, wantnf)))
        size = self.usize(r)
        want = pvf(ev["phys"]["pv"])
        if size is not None and abs(size - want) > Fraction(1e-9 if self.approx else 1e-15) * want:
            mm.append(self._mm("C11", "pfx:%s:scale" % ("left" if ev["j"] == 1 else "right"), "%s has scale %s, expected %s" % (desc, float(size), float(want))))
        if ev["n"] == 0 and r is not w:
            mm.append(self._mm("C11", "pfx:identity-prefix-not-neutral", desc))
        return mm

    def _nf(self, unit):
        p = unit.prefix
        p10 = p2 = 0
        if p.base == 10:
            p10 = p.exponent
        elif p.base == 2:
            p2 = p.exponent
        elif p.base != 0:
            return None
        if isinstance(p.exponent, float) and p.exponent != int(p.exponent):
            return None
        bag = []
        for f, e in unit.factors.items():
            if f is self.m.One:
                continue
            tok = next((t for t, u in self.unit.items() if u is f), None)
            if tok is None:
                return None
            bag.append((tok, e))
        return (p10, p2, tuple(sorted(bag)))

    def _cmp(self, ev, a, b, desc, stats):
        mm = []
        ops = {"==": lambda x, y: x == y, "!=": lambda x, y: x != y, "<": lambda x, y: x < y,
               "<=": lambda x, y: x <= y, ">": lambda x, y: x > y, ">=": lambda x, y: x >= y}
        res = {}
        for name, f in ops.items():
            for tag, x, y in (("ab", a, b), ("ba", b, a)):
                try:
                    res[name + tag] = f(x, y)
                except TypeError:
                    res[name + tag] = "TypeError"
                except self.conv.ConversionNotFound:
                    res[name + tag] = "CNF"
                except Exception as ex:
                    res[name + tag] = "OTHER:" + type(ex).__name__
        if ev["out"] == "reject":
            stats["reject"] = stats.get("reject", 0) + 1
            for tag in ("ab", "ba"):
                if res["==" + tag] is not False or res["!=" + tag] is not True:
                    mm.append(self._mm("C03", "cmp:incommensurable-equality", "%s: == gave %r, != gave %r" % (desc, res["==" + tag], res["!=" + tag])))
                for name in ("<", "<=", ">", ">="):
                    if res[name + tag] not in ("TypeError", "CNF"):
                        mm.append(self._mm("C03", "cmp:incommensurable-ordering-not-rejected", "%s: %s gave %r" % (desc, name, res[name + tag])))
            return mm
        if any(v in ("CNF", "TypeError") for v in res.values()) and all(v in ("CNF", "TypeError", True, False) for v in res.values()) \
                and res["==ab"] is False and res["<ab"] == "TypeError":
            stats["unconvertible"] = stats.get("unconvertible", 0) + 1
            return mm
        sign = ev["n"]
        inexact = any(r["u"]["p10"] < 0 for r in (self.sys["pool"][ev["i"] - 1], self.sys["pool"][ev["j"] - 1]))
        if sign == 0 and inexact:
            # 10**-k is not a binary fraction: equal physical values may differ in the last bit (a rounding tie, which
            # the statement excludes).  Only coherence is judged: the answers must be the truth table of SOME order.
            stats["ties-coherence-only"] = stats.get("ties-coherence-only", 0) + 1
            for s in (-1, 0, 1):
                w = {"==ab": s == 0, "!=ab": s != 0, "<ab": s < 0, "<=ab": s <= 0, ">ab": s > 0, ">=ab": s >= 0,
                     "==ba": s == 0, "!=ba": s != 0, "<ba": s > 0, "<=ba": s >= 0, ">ba": s < 0, ">=ba": s <= 0}
                if all(res[k] == w[k] for k in w):
                    return mm
            mm.append(self._mm("C12", "cmp:incoherent-at-a-tie", "%s: %s" % (desc, res)))
            return mm
        want = {"==ab": sign == 0, "!=ab": sign != 0, "<ab": sign < 0, "<=ab": sign <= 0, ">ab": sign > 0, ">=ab": sign >= 0,
                "==ba": sign == 0, "!=ba": sign != 0, "<ba": sign > 0, "<=ba": sign >= 0, ">ba": sign < 0, ">=ba": sign <= 0}
        stats["ok"] = stats.get("ok", 0) + 1
        bad = {k: res[k] for k in want if res[k] != want[k]}
        if bad:
            kind = "equal-values" if sign == 0 else "ordered-values"
            mm.append(self._mm("C12", "cmp:%s:%s" % (kind, ",".join(sorted(k[:-2] for k in bad))[:60]),
                               "%s (physical order %+d): %s" % (desc, sign, bad)))
            mm.append(self._mm("C06", "cmp:truth-depends-on-units", "%s (physical order %+d): %s" % (desc, sign, bad)))
        if sign == 0 and res["==ab"] is True:
            stats["equal_pairs"] = stats.get("equal_pairs", 0) + 1
            try:
                if hash(a) != hash(b):
                    same_unit = a.unit is b.unit
                    mm.append(self._mm("C12", "hash:equal-quantities-different-hash:%s" % ("same-unit" if same_unit else "different-units"),
                                       "%s compare equal but hash differently" % desc))
            except Exception as ex:
                mm.append(self._mm("C12", "hash:raised:%s" % type(ex).__name__, desc))
        return mm

    def _desc(self, ev, arec, brec):
        def q(r):
            u = r["u"] if "u" in r else r
            s = ".".join("%s^%d" % (k, e) for k, e in sorted(u["f"].items()) if e) or "1"
            pre = ("10^%d " % u["p10"] if u["p10"] else "") + ("2^%d " % u["p2"] if u["p2"] else "")
            return ("%s/%s:%s " % (r["m"][0], r["m"][1], r["k"]) if "m" in r else "") + pre + s
        s = "%s(%s" % (ev["op"], q(arec))
        if brec:
            s += ", " + q(brec)
        elif ev["op"] in ("pow", "root"):
            s += ", %d" % ev["n"]
        elif ev["op"] in ("nmulq", "qmuln", "qdivn", "ndivq"):
            s += ", %s" % (self.sys["scalars"][ev["j"] - 1],)
        elif ev["op"] in ("qmulu", "umulq", "qdivu", "in_unit"):
            s += ", " + q(self.sys["units"][ev["j"] - 1])
        return s + ")"

    def _filter(self, mm):
        return [x for x in mm if x["prop"] in self.props or x["prop"] == "DRIFT"]

    def _mm(self, prop, key, detail):
        return {"prop": prop, "key": key, "detail": detail}


def tlc_quant(label, size, group="all", timeout=3000):
    return run_tlc("MC_Quantities", wd=workdir("tlc_quant_" + label), env={"VERIF_QPOOL": size, "VERIF_QOPS": group},
                   workers=8, timeout=timeout)


GROUPS = {"C03": ["addsub", "muldiv", "unary", "cmp"], "C06": ["addsub", "muldiv", "unary", "cmp"],
          "C11": ["prefix", "muldiv", "unary", "addsub"], "C12": ["cmp", "meas"]}


def run_quant(prop, tier, seed):
    v = Verdict(prop, tier, seed)
    v.assumptions = ["synthetic dyadic system S2 (8 base units; sizes are powers of two; decimal and binary registered prefixes)",
                     "magnitudes from a small rational grid in three kinds (int, float, Decimal)",
                     "SI values compared exactly-or-1e-12; conversions that the planner refuses (ConversionNotFound) are counted, not judged"]
    size = 1 if tier == "quick" else 2
    samples = []
    for g in GROUPS[prop]:
        res = tlc_quant(g, size, g)
        require_ok(res, "MC_Quantities[%s]" % g)
        v.add_tlc(res, "MC_Quantities pool=%d ops=%s" % (size, g))
        system = res.exports["SYS"][0]
        cases = res.exports.get("E", [])
        if prop == "C11" and g != "prefix":
            pool = system["pool"]
            cases = [c for c in cases if _prefixed(pool[c["i"] - 1]) or (c["op"] in ("add", "sub", "mul", "div") and _prefixed(pool[c["j"] - 1]))]
        if not cases:
            raise MachineryError("no cases from MC_Quantities[%s]" % g)
        rep = replay_histories([[c] for c in cases], QuantDriver(system=system, props=(prop,)), split_depth=1, label="quant_" + g)
        # the same cases again in shared processes, in two opposite orders (state left by earlier calls)
        order = list(cases)
        random.Random(seed + 1).shuffle(order)
        chains = [order[i::8] for i in range(8)] + [list(reversed(order[i::8])) for i in range(8)]
        repw = replay_histories(chains, QuantDriver(system=system, props=(prop,)), split_depth=1, label="quant_warm_" + g)
        v.impl += repw["n"]
        v.evaluations += repw["n"]
        v.add_violations([dict(x, key="warm:" + x["key"]) if x["key"] not in {y["key"] for y in rep["mm"]} else x for x in repw["mm"]])
        v.impl += rep["n"]
        v.evaluations += rep["n"]
        v.nontrivial += rep["stats"].get("ok", 0) + rep["stats"].get("reject", 0)
        v.add_violations(rep["mm"])
        v.extra.setdefault("replay", []).append({"group": g, "cases": len(cases), "stats": rep["stats"]})
        random.Random(seed).shuffle(cases)
        samples += [{k: c[k] for k in ("op", "i", "j", "n", "out", "dim", "phys", "truth")} for c in cases[:2]]
    if prop == "C12":
        sorted_triples(v, system, tier, seed)
        extreme_magnitudes(v, system, seed)
    if prop == "C11":
        import algebra
        algebra.run_algebra(v, "C11", seed)
        prefix_on_scales(v, seed)
    v.exhaustive = True
    v.rule = ("cases = (operator spelling, operands) enumerated by TLC over the pool; each executed once on the real library; "
              "non-trivial = cases whose operands are commensurable and the operation returned (value judged) or whose "
              "operands are incommensurable (rejection judged)")
    v.samples = samples
    if prop == "C12":
        import conversions
        conversions.node_histories_for(v, "C12", tier, seed)
    if prop == "C06":
        import temperature
        temperature.compare_cases_for(v, "C06", tier, seed)
        temperature.arith_reexpression(v, "C06", seed)
    if prop in ("C03", "C06", "C12"):
        import ledger
        ledger.run(v, prop, tier, seed)     # code -> spec: recorded programs over the shipped units
    return v.finish()


def _prefixed(q):
    return bool(q["u"]["p10"] or q["u"]["p2"])


def sorted_triples(v, system, tier, seed):
    """C12: sorting a mixed-unit list orders it physically (the order TLC's Phys gives)."""
    from core import run_isolated
    res = run_isolated(_sorted_child, system, seed, 400 if tier == "quick" else 4000)
    v.impl += res["n"]
    v.evaluations += res["n"]
    v.extra["sorted_lists"] = res["n"]
    for k, d in res["bad"][:5]:
        v.violations.append({"prop": "C12", "key": k, "detail": d, "path": []})


def prefix_on_scales(v, seed):
    """C11 where the unit is an offset scale: m * (p * u) is (m * value(p)) * u - as readings compared with ==, and as
    temperatures after conversion to every other scale, prefixed or not (1e-9).  The exact affine definitions themselves
    are C10's subject; here only the two spellings of one quantity are compared with each other."""
    from core import run_isolated
    res = run_isolated(_prefix_scales_child, seed)
    v.impl += res["n"]
    v.evaluations += res["n"]
    v.extra["prefix_on_offset_scales"] = res["n"]
    seen = set()
    for k, d in res["bad"]:
        if k not in seen:
            seen.add(k)
            v.violations.append({"prop": "C11", "key": k, "detail": d, "path": []})


def _prefix_scales_child(seed):
    import sys
    from core import REPO
    sys.path.insert(0, os.path.join(REPO, "src"))
    from decimal import Decimal
    import measured.si as si
    import measured.us as us
    from measured import Quantity
    scales = [si.Kelvin, si.Celsius, us.Fahrenheit, us.Rankine]
    prefixes = [si.Kilo, si.Milli, si.Micro, si.Hecto]
    bad, n = [], 0
    for u in scales:
        for p in prefixes:
            vp = p.quantify()
            for m0 in (1, 20, -5, 0, 2.5, 1000, Decimal("12.5")):
                a = Quantity(m0, p * u)                                   # m * (p*u), the prefix stays on the unit
                b = Quantity(m0 * (Decimal(repr(vp)) if isinstance(m0, Decimal) else vp), u)      # (m * value(p)) * u
                n += 1
                tag = "%s:%s" % ("offset" if u in (si.Celsius, us.Fahrenheit) else "degree", "negative-exponent" if vp < 1 else "positive-exponent")
                try:
                    # (== is exact: judged where the prefix factor is exact in the magnitude's type - whole factors, int or
                    # float magnitudes; 10**-3 times a Decimal is a rounding tie)
                    if vp >= 1 and not isinstance(m0, Decimal) and not (a == b and b == a):
                        bad.append(("scale:prefixed-reading-differs:%s" % tag, "%r == %r is False" % (a, b)))
                except Exception as ex:
                    bad.append(("scale:compare-raised:%s" % type(ex).__name__, "%r vs %r" % (a, b)))
                for t in scales:
                    for tp in [None] + prefixes[:2]:
                        target = t if tp is None else tp * t
                        try:
                            x, y = a.in_unit(target).magnitude, b.in_unit(target).magnitude
                        except Exception as ex:
                            bad.append(("scale:convert-raised:%s" % type(ex).__name__, "%r / %r -> %s" % (a, b, target)))
                            continue
                        n += 1
                        fx, fy = float(x), float(y)
                        if abs(fx - fy) > 1e-9 * max(abs(fx), abs(fy)) + 1e-9 * (abs(float(m0)) * float(vp) + 500) / (float(tp.quantify()) if tp else 1.0):
                            bad.append(("scale:prefixed-source-converts-differently:%s->%s" % (tag, "prefixed-target" if tp else "plain-target"),
                                        "%r -> %s gives %r, %r -> %s gives %r" % (a, target, x, b, target, y)))
                # a prefixed TARGET means the prefix factor times the target: x (p*t) is x * value(p) t
                for t in scales:
                    try:
                        plain = float(b.in_unit(t).magnitude)
                    except Exception:
                        continue
                    for tp in prefixes:
                        try:
                            pref = float(b.in_unit(tp * t).magnitude) * float(tp.quantify())
                        except Exception as ex:
                            bad.append(("scale:convert-raised:%s" % type(ex).__name__, "%r -> %s" % (b, tp * t)))
                            continue
                        n += 1
                        if abs(pref - plain) > 1e-9 * max(abs(pref), abs(plain)) + 1e-7:
                            bad.append(("scale:prefixed-target-is-not-the-factor-times-the-target:%s" % ("offset-crossed" if (u in (si.Celsius, us.Fahrenheit)) != (t in (si.Celsius, us.Fahrenheit)) or (u is not t and u in (si.Celsius, us.Fahrenheit)) else "no-offset"),
                                        "%r -> %s gives %r, times the prefix %r; -> %s gives %r" % (b, tp * t, pref / float(tp.quantify()), float(tp.quantify()), t, plain)))
                # stripping the prefix does not change the value
                try:
                    un = a.unprefixed()
                    if un.unit is not u or abs(float(un.magnitude) - float(b.magnitude)) > 1e-9 * max(1.0, abs(float(b.magnitude))):
                        bad.append(("scale:unprefixed-changes-value:%s" % tag, "%r.unprefixed() is %r" % (a, un)))
                except Exception as ex:
                    bad.append(("scale:unprefixed-raised:%s" % type(ex).__name__, "%r" % (a,)))
    return {"n": n, "bad": bad}


def extreme_magnitudes(v, system, seed):
    """C12 at the edges of the magnitude types: infinities, the largest and smallest floats, integers beyond 2**53,
    zeros of both signs - in every unit of the synthetic system.  == is reflexive, exactly one of <, ==, > holds, <= and
    >= mirror each other, and the order is the order of the (extended) physical values; pairs closer than 1e-9 relative
    are rounding ties and are judged for coherence only."""
    from core import run_isolated
    res = run_isolated(_extremes_child, system, seed)
    v.impl += res["n"]
    v.evaluations += res["n"]
    v.extra["extreme_magnitude_pairs"] = res["n"]
    seen = set()
    for k, d in res["bad"]:
        if k not in seen:
            seen.add(k)
            v.violations.append({"prop": "C12", "key": k, "detail": d, "path": []})


def _extremes_child(system, seed):
    d = QuantDriver(system=system, props=("C12",))
    d.prepare()
    inf = float("inf")
    # (1e300 and 1e-300 rather than the very largest and smallest floats: a prefix must not push them into overflow or
    # underflow, which would be rounding, not comparison)
    mags = [inf, -inf, 1e300, -1e300, 1e-300, 0, 0.0, -0.0, 2 ** 53 + 1, 2 ** 200, -(2 ** 200), 1, 1.0, -1]
    units = []
    for q in d.pool:
        if q.unit not in units and d.dimvec(q.unit) == d.dimvec(d.pool[0].unit) and d.usize(q.unit) is not None:
            units.append(q.unit)
    units = units[:4]
    qs = [(mg, u, mg * u) for u in units for mg in mags]

    def ext(mg, u):
        """extended physical value: (class, exact value) with class -1 / 0 / +1 for -inf / finite / +inf"""
        if mg in (inf, -inf):
            return (1 if mg > 0 else -1, 0)
        return (0, Fraction(mg) * d.usize(u))
    bad, n = [], 0
    for (ma, ua, a) in qs:
        for (mb, ub, b) in qs:
            n += 1
            try:
                r = {"==": a == b, "!=": a != b, "<": a < b, "<=": a <= b, ">": a > b, ">=": a >= b}
            except Exception as ex:
                bad.append(("extreme:raised:%s" % type(ex).__name__, "%r vs %r" % (a, b)))
                continue
            what = "%r %s vs %r %s" % (ma, ua, mb, ub)
            if a is b and not (r["=="] and not r["!="] and not r["<"] and not r[">"] and r["<="] and r[">="]):
                bad.append(("extreme:not-reflexive:%s" % ("infinite" if ma in (inf, -inf) else "finite"), "%s: %s" % (what, r)))
                continue
            # coherence, whatever the values
            if r["=="] == r["!="] or (r["<"] + r["=="] + r[">"]) != 1 or r["<="] != (r["<"] or r["=="]) or r[">="] != (r[">"] or r["=="]):
                bad.append(("extreme:incoherent:%s" % ("infinite" if inf in (abs(ma), abs(mb)) else "finite"), "%s: %s" % (what, r)))
                continue
            ea, eb = ext(ma, ua), ext(mb, ub)
            if ea[0] == 0 and eb[0] == 0:
                scale = max(abs(ea[1]), abs(eb[1]))
                if ea[1] != eb[1] and abs(ea[1] - eb[1]) <= Fraction(1, 10 ** 9) * scale:
                    continue        # a rounding tie
                if ea[1] == eb[1] and ua is not ub:
                    continue        # equal through a conversion: a tie as well
            want = "<" if ea < eb else ">" if ea > eb else "=="
            if not r[want]:
                bad.append(("extreme:order:%s" % ("infinite" if inf in (abs(ma), abs(mb)) else "finite"), "%s: expected %s, got %s" % (what, want, r)))
    return {"n": n, "bad": bad}


def _sorted_child(system, seed, n):
    d = QuantDriver(system=system, props=("C12",))
    d.prepare()
    rng = random.Random(seed)
    by_dim = {}
    for q, rec in zip(d.pool, system["pool"]):
        by_dim.setdefault(json.dumps(d.dimvec(q.unit), sort_keys=True), []).append((q, rec))
    bad, done = [], 0
    groups = [g for g in by_dim.values() if len(g) >= 3]
    for _ in range(n):
        g = rng.choice(groups)
        items = rng.sample(g, min(len(g), rng.randint(3, 6)))
        phys = lambda it: frac(it[1]["m"]) * d.usize(it[0].unit)  # noqa: E731
        try:
            got = sorted(items, key=lambda it: it[0])
        except Exception as ex:
            if isinstance(ex, (TypeError, d.conv.ConversionNotFound)):
                continue
            bad.append(("sorted:raised:%s" % type(ex).__name__, str([it[1] for it in items])))
            continue
        done += 1
        vals = [phys(it) for it in got]
        if any(vals[i] > vals[i + 1] for i in range(len(vals) - 1)):
            bad.append(("sorted:not-physical-order", "sorted gave SI values %s" % [float(x) for x in vals]))
    return {"n": done, "bad": bad}
