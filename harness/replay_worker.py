"""Replay coordinator, run as its own process so that the library is freshly imported and the
forking processes stay small.

usage: replay_worker.py <module:Class> <kwargs-json> <tasks.jsonl> <out.json> <procs>

A task is {"prefix": [ev, ...], "tree": [ev, [subtree, ...]]}: the prefix is re-executed
silently (it is judged by the task that owns those edges), then every edge of the tree is
executed exactly once, forking where the tree branches.
"""
import importlib
import json
import os
import select
import struct
import sys
import traceback

sys.path.insert(0, os.path.dirname(os.path.abspath(__file__)))


def _read_exact(fd, n):
    buf = b""
    while len(buf) < n:
        b = os.read(fd, n - len(buf))
        if not b:
            return None
        buf += b
    return buf


def send(fd, obj):
    data = json.dumps(obj).encode()
    data = struct.pack("<I", len(data)) + data
    mv = memoryview(data)
    while mv:
        n = os.write(fd, mv)
        mv = mv[n:]


def recv(fd):
    h = _read_exact(fd, 4)
    if h is None:
        return None
    (n,) = struct.unpack("<I", h)
    return json.loads(_read_exact(fd, n))


def merge(acc, sub):
    acc["n"] += sub["n"]
    acc["mm"].extend(sub["mm"])
    for k, v in sub["stats"].items():
        acc["stats"][k] = acc["stats"].get(k, 0) + v


def apply_one(driver, ctx, ev, path, acc):
    acc["n"] += 1
    try:
        mms = driver.apply(ev, ctx, acc["stats"]) or []
    except Exception:
        mms = [{"prop": "MACHINERY", "key": "driver exception", "detail": traceback.format_exc()}]
    for m in mms:
        m["path"] = path
        acc["mm"].append(m)


def walk(driver, ctx, node, path, acc):
    """node = [segment (events applied in this process), kids]; fork only where the tree branches"""
    while True:
        seg, kids = node
        for ev in seg:
            path = path + [ev] if len(path) < 40 else path[:39] + [ev]
            apply_one(driver, ctx, ev, path, acc)
        if len(kids) != 1:
            break
        node = kids[0]
    for kid in kids:
        r, w = os.pipe()
        pid = os.fork()
        if pid == 0:
            os.close(r)
            res = {"n": 0, "mm": [], "stats": {}}
            try:
                walk(driver, ctx, kid, path, res)
            except BaseException:
                res["mm"].append({"prop": "MACHINERY", "key": "walk exception",
                                  "detail": traceback.format_exc(), "path": path})
            try:
                send(w, res)
            finally:
                os._exit(0)
        os.close(w)
        res = recv(r)
        os.close(r)
        os.waitpid(pid, 0)
        if res is None:
            acc["mm"].append({"prop": "MACHINERY", "key": "child died", "detail": "", "path": path})
        else:
            merge(acc, res)


def run_task(driver, task):
    """in a child forked from a pristine worker"""
    ctx = driver.fresh_ctx()
    acc = {"n": 0, "mm": [], "stats": {}}
    path = []
    for ev in task["prefix"]:
        path.append(ev)
        try:
            driver.apply(ev, ctx, {})
        except Exception:
            pass
    walk(driver, ctx, task["tree"], path, acc)
    return acc


def worker_loop(driver, rfd, wfd):
    while True:
        task = recv(rfd)
        if task is None:
            os._exit(0)
        r, w = os.pipe()
        pid = os.fork()
        if pid == 0:
            os.close(r)
            try:
                res = run_task(driver, task)
            except BaseException:
                res = {"n": 0, "mm": [{"prop": "MACHINERY", "key": "task exception",
                                       "detail": traceback.format_exc(), "path": []}], "stats": {}}
            try:
                send(w, res)
            finally:
                os._exit(0)
        os.close(w)
        res = recv(r)
        os.close(r)
        os.waitpid(pid, 0)
        if res is None:
            res = {"n": 0, "mm": [{"prop": "MACHINERY", "key": "task died", "detail": "", "path": []}], "stats": {}}
        send(wfd, res)


def main():
    spec, kwargs, tasks_file, out_file, procs = sys.argv[1:6]
    procs = int(procs)
    modname, clsname = spec.split(":")
    if kwargs.startswith("@"):
        kwargs = open(kwargs[1:]).read()
    driver = getattr(importlib.import_module(modname), clsname)(**json.loads(kwargs))
    driver.prepare()
    workers = []
    for _ in range(procs):
        tr, tw = os.pipe()   # tasks to worker
        rr, rw = os.pipe()   # results from worker
        pid = os.fork()
        if pid == 0:
            os.close(tw)
            os.close(rr)
            for w in workers:
                os.close(w["tw"])
                os.close(w["rr"])
            worker_loop(driver, tr, rw)
            os._exit(0)
        os.close(tr)
        os.close(rw)
        workers.append({"pid": pid, "tw": tw, "rr": rr, "busy": False})
    acc = {"n": 0, "mm": [], "stats": {}}
    ntasks = 0
    with open(tasks_file) as f:
        it = iter(f)
        exhausted = False
        while True:
            for w in workers:
                if not w["busy"] and not exhausted:
                    line = next(it, None)
                    if line is None:
                        exhausted = True
                        break
                    data = line.strip().encode()
                    mv = memoryview(struct.pack("<I", len(data)) + data)
                    while mv:
                        n = os.write(w["tw"], mv)
                        mv = mv[n:]
                    w["busy"] = True
                    ntasks += 1
            busy = [w for w in workers if w["busy"]]
            if not busy:
                if exhausted:
                    break
                continue
            ready, _, _ = select.select([w["rr"] for w in busy], [], [], 30.0)
            for fd in ready:
                w = [x for x in busy if x["rr"] == fd][0]
                res = recv(fd)
                w["busy"] = False
                if res is None:
                    acc["mm"].append({"prop": "MACHINERY", "key": "worker died", "detail": "", "path": []})
                else:
                    merge(acc, res)
    for w in workers:
        os.close(w["tw"])
    for w in workers:
        os.waitpid(w["pid"], 0)
    acc["tasks"] = ntasks
    # keep the result file bounded: one full record per distinct key, the rest counted
    seen = {}
    obs = [m for m in acc["mm"] if m.get("prop") == "OBS"]
    for m in acc["mm"]:
        if m.get("prop") == "OBS":
            continue
        k = (m.get("prop"), m.get("key"))
        if k in seen:
            cnt = seen[k].get("count", 1) + 1
            if len(m.get("path") or []) < len(seen[k].get("path") or []):
                seen[k] = m
            seen[k]["count"] = cnt
        else:
            seen[k] = m
    acc["mm"] = list(seen.values())
    for m in obs:
        m.pop("path", None)
    acc["obs"] = obs
    with open(out_file, "w") as f:
        json.dump(acc, f)


if __name__ == "__main__":
    main()
