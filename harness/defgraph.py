"""C09: shipped definitions are mutually consistent and connected to SI (spec/DefGraph.tla, MC_DefGraph)."""
import json
import math
import os
import sys
from fractions import Fraction

from core import MachineryError, REPO, Verdict, run_isolated, run_tlc, workdir

STEP = 1e-6


def intercept(_):
    """in an isolated child: import every shipped module while recording Unit.equals()/Dimension.scale()"""
    sys.path.insert(0, os.path.join(REPO, "src"))
    import measured
    from measured import Unit, conversions
    decls = []
    orig_equals = Unit.equals
    orig_translate = conversions.translate

    def key(u):
        return u.names[0] if u.names else "anon%x" % id(u)

    def bag(unit):
        """unit -> (exact prefix factor, {base name: exponent})"""
        p = unit.prefix
        f = Fraction(1) if p.base == 0 or p.exponent == 0 else Fraction(p.base) ** int(p.exponent)
        out = {}
        for b, e in unit.factors.items():
            if b is measured.One:
                continue
            if b.prefix.base != 0:      # a base unit never carries a prefix; compound named units are expanded already
                f *= Fraction(b.prefix.base) ** int(b.prefix.exponent)
            out[key(b)] = out.get(key(b), 0) + e
        return f, out

    def equals(self, other):
        orig_equals(self, other)
        lf, lb = bag(self)
        rf, rb = bag(other.unit)
        ratio = Fraction(repr(other.magnitude)) * rf / lf        # 1 L = ratio * R   (the literal as written)
        t = dict(lb)
        for b, e in rb.items():
            t[b] = t.get(b, 0) - e
        decls.append({"text": "%s.equals(%r * %s)" % (self.name or str(self), other.magnitude, other.unit.name or str(other.unit)),
                      "ratio": [ratio.numerator, ratio.denominator], "t": {b: e for b, e in t.items() if e}, "lhs": key(self) if self.names else str(self)})

    def translate(scale, zero):
        orig_translate(scale, zero)
        lf, lb = bag(scale)
        rf, rb = bag(zero.unit)
        t = dict(lb)
        for b, e in rb.items():
            t[b] = t.get(b, 0) - e
        decls.append({"text": "scale %s of %s" % (scale.name, zero.unit.name), "ratio": [1, 1], "t": {b: e for b, e in t.items() if e}, "lhs": key(scale)})

    Unit.equals = equals
    conversions.translate = translate
    measured.Unit.equals = equals
    import measured.systems  # noqa: F401
    Unit.equals = orig_equals
    conversions.translate = orig_translate
    # cross-check with the library's own table: every recorded declaration between two plain units must be what _ratios holds
    overwritten = []
    named = {}
    for name, u in Unit._by_name.items():
        named.setdefault(id(u), (u, []))[1].append(name)
    units = []
    SI = {"length": "meter", "time": "second", "mass": "kilogram", "charge": "coulomb", "temperature": "kelvin",
          "amount of substance": "mole", "luminous intensity": "candela", "information": "bit"}
    fund = list(measured.Dimension.fundamental())
    for uid, (u, names) in named.items():
        dim = u.dimension
        physical = any(dim.exponents)
        units.append({"name": names[0], "physical": physical, "base": len(u.factors) == 1 and next(iter(u.factors)) is u,
                      "dim": list(dim.exponents),
                      "scale": u in conversions._offsets and bool(conversions._offsets[u])})
    return {"decls": decls, "units": units, "si": SI, "fund": [d.name for d in fund]}


def lattice(fr):
    return int(round(math.log(fr.numerator / fr.denominator) / STEP)) if fr > 0 else None


def data_module(info, roots, with_pairs=False):
    rows = []
    for d in info["decls"]:
        lat = lattice(Fraction(d["ratio"][0], d["ratio"][1]))
        rows.append("  [lat |-> %d, t |-> {%s}]" % (lat, ", ".join('<<"%s", %d>>' % (b.replace('"', "'"), e) for b, e in sorted(d["t"].items()))))
    bases = sorted({b for d in info["decls"] for b in d["t"]} | {u["name"] for u in info["units"] if u["base"] and u["physical"]})
    classes = {}
    if with_pairs:
        for u in info["units"]:
            if u["base"] and u["physical"] and not u.get("scale"):      # offset scales are C10's subject
                classes.setdefault(tuple(u["dim"]), []).append(u["name"])
    cls = ", ".join("{%s}" % ", ".join('"%s"' % n.replace('"', "'") for n in sorted(ns)) for ns in classes.values() if len(ns) > 1)
    return ("---- MODULE DefGraphData ----\nEXTENDS Integers\nDRoots == {%s}\nDBases == {%s}\nDClasses == {%s}\nDDecls == <<\n%s\n>>\n====\n" % (
        ", ".join('"%s"' % r for r in roots), ", ".join('"%s"' % b.replace('"', "'") for b in bases), cls, ",\n".join(rows)), bases)


def exact_solution(info, roots):
    """the same solving order as the spec, in exact Fractions (used to re-confirm every lattice alarm)"""
    size = {r: Fraction(1) for r in roots}
    pending = list(range(len(info["decls"])))
    progress = True
    while progress:
        progress = False
        for i in pending:
            d = info["decls"][i]
            uns = [b for b in d["t"] if b not in size]
            if len(uns) == 1 and d["t"][uns[0]] in (1, -1):
                x = uns[0]
                k = Fraction(d["ratio"][0], d["ratio"][1])
                rest = Fraction(1)
                for b, e in d["t"].items():
                    if b != x:
                        rest *= size[b] ** e
                # PROD size[b]^e = k  =>  size[x]^c = k / rest
                val = k / rest
                size[x] = val if d["t"][x] == 1 else 1 / val
                pending.remove(i)
                progress = True
                break
    return size


def code_side(args):
    """in an isolated child: every named unit of a physical dimension converts to and from the coherent SI unit"""
    sizes, = args
    sys.path.insert(0, os.path.join(REPO, "src"))
    import measured
    import measured.systems  # noqa: F401
    from measured import Unit, conversions
    from measured import si
    coherent = [None, si.Meter, si.Second, si.Kilogram, si.Kelvin, si.Coulomb, si.Mole, si.Candela]
    try:
        from measured.iec import Bit
        coherent.append(Bit)
    except Exception:
        coherent.append(None)
    out = {"n": 0, "bad": [], "ok": 0}
    seen = set()
    for name, u in sorted(Unit._by_name.items()):
        if id(u) in seen:
            continue
        seen.add(id(u))
        ex = u.dimension.exponents
        if not any(ex):
            continue
        target = measured.One
        usable = True
        for i, e in enumerate(ex):
            if e:
                if i >= len(coherent) or coherent[i] is None:
                    usable = False
                    break
                target = target * coherent[i] ** e
        if not usable or target is u:
            continue
        out["n"] += 1
        if u in conversions._offsets or any(u in d for d in conversions._offsets.values()):
            kind = "scale"
        else:
            kind = "unit"
        for direction, a, b in (("to-SI", u, target), ("from-SI", target, u)):
            try:
                r = (1 * a).in_unit(b)
                out["ok"] += 1
            except Exception as ex2:
                out["bad"].append(["no-conversion-%s:%s" % (direction, name), "%s: (1 * %s).in_unit(%s) raised %s" % (name, a, b, type(ex2).__name__)])
                continue
            if kind == "unit" and name in sizes and direction == "to-SI":
                want = sizes[name]
                # the library's mass base is the gram: the solved sizes are relative to gram, the coherent unit is the kilogram
                mass_e = ex[3] if len(ex) > 3 else 0
                want = want / (1000.0 ** mass_e)
                deg = sum(abs(e) for e in ex)
                if want and abs(float(r.magnitude) / want - 1) > 1e-5 * max(1, deg):
                    out["bad"].append(["size-differs-from-definitions:%s" % name, "%s -> SI gives %r, the declarations give %r" % (name, r.magnitude, want)])
    return out


def run_c09(tier, seed):
    v = Verdict("C09", tier, seed)
    v.assumptions = ["declarations are intercepted from Unit.equals()/Dimension.scale() while measured.systems imports; literals are taken as written (Fraction(repr(x)))",
                     "lattice step 1e-6 in ln(ratio); tolerance 10 lattice units (1e-5) per unit of exponent degree plus the quantisation error; every lattice alarm is re-confirmed in exact Fractions before it is reported",
                     "temperature scales enter as ratio-1 edges between the scale and its degree unit (offsets are C10's subject)"]
    info = run_isolated(intercept, None)
    roots = ["meter", "second", "gram", "coulomb", "kelvin", "mole", "candela", "radian", "bit"]
    # (all SI base units are roots, whether or not a declaration mentions them)
    data, bases = data_module(info, roots)
    res = run_tlc("MC_DefGraph", wd=workdir("tlc_defgraph"), workers=1, timeout=3000, overlay={"DefGraphData.tla": data})
    if res.errors or res.violated:
        raise MachineryError("MC_DefGraph failed: %s %s" % (res.errors[:2], res.violated))
    v.add_tlc(res, "MC_DefGraph: %d declarations over %d base units" % (len(info["decls"]), len(bases)))
    exact = exact_solution(info, roots)
    sizes_tlc = (res.exports.get("SIZES") or [{}])[-1]
    # binding of the lattice solution to the exact one
    for b, lat in sizes_tlc.items():
        if b in exact and abs(math.log(float(exact[b])) / STEP - lat) > 50:
            raise MachineryError("lattice size of %s (%s) is far from the exact size %s" % (b, lat, float(exact[b])))
    v.evaluations = len(info["decls"])
    nontrivial = 0
    for d in info["decls"]:
        if all(b in exact for b in d["t"]):
            nontrivial += 1
    for bad in res.exports.get("BAD", []):
        d = info["decls"][bad["i"] - 1]
        k = Fraction(d["ratio"][0], d["ratio"][1])
        prod = Fraction(1)
        for b, e in d["t"].items():
            prod *= exact[b] ** e
        rel = abs(float(prod / k) - 1)
        deg = sum(abs(e) for e in d["t"].values())
        if rel > 1e-5 * deg:
            v.violations.append({"prop": "C09", "key": "inconsistent:%s" % d["text"], "detail": "%s disagrees with the chain of other definitions by %.3g relative (tolerance %.1g)" % (d["text"], rel, 1e-5 * deg),
                                 "path": [d["text"]]})
        else:
            v.notes.append({"key": "lattice-noise", "detail": "%s: lattice residual %s, exact %.3g" % (d["text"], bad["res"], rel)})
    for ug in res.exports.get("UNGROUNDED", []):
        v.violations.append({"prop": "C09", "key": "unconnected:%s" % ug["b"], "detail": "no chain of declared equivalences links %s to the SI base units" % ug["b"], "path": [ug["b"]]})
    code = run_isolated(code_side, ({b: float(x) for b, x in exact.items()},))
    v.impl = code["n"] * 2
    v.evaluations += code["n"] * 2
    seen = set()
    for k, dd in code["bad"]:
        if k not in seen:
            seen.add(k)
            v.violations.append({"prop": "C09", "key": k, "detail": dd, "path": [k]})
    v.nontrivial = nontrivial + code["ok"]
    v.exhaustive = True
    v.extra["graph"] = {"declarations": len(info["decls"]), "base_units": len(bases), "sized": len(sizes_tlc), "named_units_converted": code["n"],
                        "conversions_ok": code["ok"], "lattice_alarms": len(res.exports.get("BAD", []))}
    v.rule = ("cases = declared equivalences (each checked against the sizes solved from the other declarations) plus conversions of every named unit to "
              "and from its coherent SI unit on the real library; non-trivial = declarations whose units are all connected to SI, and conversions that returned")
    v.samples = [{"declaration": d["text"], "ratio": d["ratio"], "constraint": d["t"]} for d in info["decls"][:5]]
    return v.finish()


# =============================================================================== C04 on the shipped definitions

def shipped_pairs_code(args):
    """in an isolated child: convert between every pair TLC exported and compare with the prescribed ratio"""
    pairs, = args
    sys.path.insert(0, os.path.join(REPO, "src"))
    import measured.systems  # noqa: F401
    from measured import Unit, conversions
    out = {"n": 0, "ok": 0, "cnf": 0, "bad": []}
    for p in pairs:
        a, b = Unit._by_name.get(p["a"]), Unit._by_name.get(p["b"])
        if a is None or b is None:
            continue
        out["n"] += 1
        try:
            r = (1 * a).in_unit(b)
        except conversions.ConversionNotFound:
            out["cnf"] += 1
            continue
        except Exception as ex:
            out["bad"].append(["shipped:escaped:%s" % type(ex).__name__, "%s -> %s" % (p["a"], p["b"])])
            continue
        out["ok"] += 1
        deg = sum(abs(e) for e in a.dimension.exponents)
        want = math.exp(p["lat"] * STEP)
        if r.unit is not b:
            out["bad"].append(["shipped:unit:%s->%s" % (p["a"], p["b"]), "returned %s" % r.unit])
        if abs(float(r.magnitude) / want - 1) > 1e-5 * max(1, deg) + 4e-6:
            out["bad"].append(["shipped:value:%s->%s" % (p["a"], p["b"]), "1 %s in %s is %r, the declared definitions give %.9g" % (p["a"], p["b"], r.magnitude, want)])
    return out


def shipped_pairs(v, tier, seed):
    """C04: named units of the shipped modules; TLC prescribes the ratio of every ordered pair of one dimension"""
    info = run_isolated(intercept, None)
    roots = ["meter", "second", "gram", "coulomb", "kelvin", "mole", "candela", "radian", "bit"]
    data, bases = data_module(info, roots, with_pairs=True)
    res = run_tlc("MC_DefGraph", wd=workdir("tlc_defgraph_pairs"), workers=4, timeout=3000, overlay={"DefGraphData.tla": data})
    if res.errors or res.violated:
        raise MachineryError("MC_DefGraph (pairs) failed: %s %s" % (res.errors[:2], res.violated))
    v.add_tlc(res, "MC_DefGraph with pairwise ratios of shipped named units")
    pairs = res.exports.get("PAIR", [])
    code = run_isolated(shipped_pairs_code, (pairs,))
    v.impl += code["n"]
    v.evaluations += code["n"]
    v.nontrivial += code["ok"]
    seen = set()
    for k, d in code["bad"]:
        if k not in seen:
            seen.add(k)
            v.violations.append({"prop": "C04", "key": k, "detail": d, "path": [k]})
    v.extra["shipped"] = {"pairs": len(pairs), "converted": code["ok"], "conversion_not_found": code["cnf"], "violating_pairs": len(code["bad"])}


# =============================================================================== C08 on the shipped definitions

def _ship_cold(pair):
    a, b = pair
    from measured import Unit, conversions
    try:
        return ["ok", repr((1 * Unit._by_name[a]).in_unit(Unit._by_name[b]).magnitude)]
    except conversions.ConversionNotFound:
        return ["CNF", ""]
    except Exception as ex:
        return ["OTHER:" + type(ex).__name__, ""]


def _ship_explore(args):
    """in an isolated child with every shipped module imported: each pair in a fresh fork (cold), then all pairs in this one
    process in a seeded random order (warm); the shipped graph has redundant, slightly different routes (survey foot vs
    international foot), so a route chosen because of what was asked earlier shows as a different value"""
    pairs, seed = args
    sys.path.insert(0, os.path.join(REPO, "src"))
    import random
    import measured.systems  # noqa: F401
    from core import parallel_isolated
    cold = parallel_isolated(_ship_cold, pairs)
    order = list(range(len(pairs)))
    random.Random(seed).shuffle(order)
    warm = [None] * len(pairs)
    for i in order:
        warm[i] = _ship_cold(pairs[i])
    again = [_ship_cold(p) for p in pairs]
    return {"cold": cold, "warm": warm, "again": again}


def shipped_history_independence(v, tier, seed):
    info = run_isolated(intercept, None)
    classes = {}
    for u in info["units"]:
        if u["base"] and u["physical"] and not u.get("scale"):
            classes.setdefault(tuple(u["dim"]), []).append(u["name"])
    import random
    rng = random.Random(seed)
    pairs = [(a, b) for ns in classes.values() for a in ns for b in ns if a != b]
    if tier == "quick" and len(pairs) > 1200:
        pairs = rng.sample(pairs, 1200)
    res = run_isolated(_ship_explore, (pairs, seed))
    ndiff = 0
    for (a, b), c, w, g in zip(pairs, res["cold"], res["warm"], res["again"]):
        for what, x in (("after-other-conversions", w), ("asked-again", g)):
            if x != c:
                ndiff += 1
                v.violations.append({"prop": "C08", "key": "shipped:history-dependent:%s->%s" % (a, b),
                                     "detail": "1 %s in %s: fresh process %s, %s %s" % (a, b, c, what, x), "path": [a, b]})
                break
    v.impl += 3 * len(pairs)
    v.evaluations += 3 * len(pairs)
    v.extra["shipped_cold_vs_warm"] = {"pairs": len(pairs), "differences": ndiff}
