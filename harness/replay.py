"""./check <id> --replay <file>: re-execute the history recorded in a replay file on the current tree.

Exit 1 (and a VIOLATION line) if the recorded violation key is observed again, 0 if not.  Replay files written by
driver-based checks carry the driver and its arguments, so only that one history is executed (in a fresh process);
other files (TLC-level alarms, schedules) fall back to re-running the property's quick check and looking for the key."""
import json
import subprocess
import sys
import os

from core import VERIF, replay_histories


def run(prop, path):
    rec = json.load(open(path))
    key = rec["key"]
    base = key[5:] if key.startswith("warm:") else key
    drv = rec.get("driver")
    hist = rec.get("history")
    if drv and isinstance(hist, list) and hist and all(isinstance(e, dict) for e in hist):
        import importlib
        modname, clsname = drv["spec"].split(":")
        driver = getattr(importlib.import_module(modname), clsname)(**drv["kwargs"])
        rep = replay_histories([hist], driver, split_depth=1, label="replay")
        hits = [m for m in rep["mm"] if m.get("prop") == prop and m.get("key") in (key, base)]
        for m in rep["mm"]:
            print("  observed: %s %s :: %s" % (m.get("prop"), m.get("key"), str(m.get("detail"))[:300]))
        if hits:
            print("VIOLATION property=%s replay=%s" % (prop, path))
            return 1
        print("replay of %d steps: the recorded violation (%s) was NOT observed on the current tree" % (len(hist), key))
        return 0
    print("no single-history driver recorded for this file; re-running ./check %s --tier quick and looking for the key" % prop)
    p = subprocess.run([os.path.join(VERIF, "check"), prop, "--tier", "quick"], stdout=subprocess.PIPE, stderr=subprocess.STDOUT, text=True, cwd=VERIF)
    seen = key in p.stdout or base in p.stdout
    print(p.stdout[-1500:])
    if seen:
        print("VIOLATION property=%s replay=%s" % (prop, path))
        return 1
    return 0
