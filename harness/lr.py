"""LR machine: C16 (shipped generated parser == grammar file) and the token level of C17.

Both LALR tables are turned into literal TLA+ constants (module LRData, generated at check
time): TabA from the DATA/MEMO embedded in src/measured/_parser.py, TabB from a parser built
exactly the way the Makefile builds it (lark.tools.standalone's own build function).
"""
import io
import json
import os
import random
import re
import sys

from core import MachineryError, REPO, Verdict, require_ok, run_isolated, run_tlc, workdir


def _sym(s):
    out = s["name"]
    if s.get("__type__") == "Terminal" and s.get("filter_out"):
        out += "~"
    return out


def _rule_sig(r):
    o = r["options"] or {}
    return "%s -> %s | alias=%s order=%s keep=%s expand1=%s prio=%s empty=%s" % (
        r["origin"]["name"], " ".join(_sym(s) for s in r["expansion"]), r["alias"], r["order"],
        o.get("keep_all_tokens"), o.get("expand1"), o.get("priority"), list(o.get("empty_indices") or []))


def _normalise(data, memo):
    """-> dict(states, starts, rules, terminals, ignore, lexer, flags)"""
    p = data["parser"]["parser"]
    tokens = p["tokens"]
    tokens = {int(k): v for k, v in tokens.items()} if isinstance(tokens, dict) else dict(enumerate(tokens))
    rules = {}
    for k, v in memo.items():
        if v.get("__type__") == "Rule":
            rules[int(k)] = v
    states = {}
    for s, row in p["states"].items():
        r = {}
        for tok, act in row.items():
            name = tokens[int(tok)]
            if act[0] == 0:
                r[name] = ("S", int(act[1]))
            else:
                r[name] = ("R", int(act[1]["@"]))
        states[int(s)] = r
    terms = {}
    for k, v in memo.items():
        if v.get("__type__") == "TerminalDef":
            terms[v["name"]] = {"pattern": v["pattern"]["value"], "flags": sorted(v["pattern"].get("flags") or []),
                                "ptype": v["pattern"]["__type__"], "priority": v["priority"]}
    lc = data["parser"]["lexer_conf"]
    used_terms = [memo[t["@"]]["name"] if isinstance(t, dict) and "@" in t else t for t in lc["terminals"]]
    return {"states": states, "starts": {k: int(v) for k, v in p["start_states"].items()},
            "ends": {k: int(v) for k, v in p["end_states"].items()},
            "rules": {k: {"origin": v["origin"]["name"], "len": len(v["expansion"]), "sig": _rule_sig(v)} for k, v in rules.items()},
            "terminals": {n: terms[n] for n in used_terms if n in terms}, "ignore": list(lc["ignore"]), "lexer": lc["lexer_type"],
            "flags": lc["g_regex_flags"],
            "options": {k: data["options"].get(k) for k in ("keep_all_tokens", "maybe_placeholders", "start", "parser", "lexer", "propagate_positions")}}


def load_tables():
    """in an isolated child: (shipped, fresh) normalised tables"""
    sys.path.insert(0, os.path.join(REPO, "src"))
    from measured import _parser as P
    shipped = _normalise(P.DATA, P.MEMO)
    import lark
    from lark.tools import build_lalr, lalr_argparser
    grammar = os.path.join(REPO, "src", "measured", "measured.lark")
    ns = lalr_argparser.parse_args(["--start", "unit", "--start", "quantity", grammar])
    inst, _ = build_lalr(ns)
    data, memo = inst.memo_serialize([lark.lexer.TerminalDef, lark.grammar.Rule])
    fresh = _normalise(json.loads(json.dumps(data)), {int(k): v for k, v in json.loads(json.dumps(memo)).items()})
    return shipped, fresh


def _tla_str(s):
    return '"' + s.replace("\\", "\\\\").replace('"', '\\"') + '"'


def _tla_table(t, name):
    rows = []
    for s, row in sorted((int(k), v) for k, v in t["states"].items()):
        cells = []
        for sym, (k, v) in sorted(row.items()):
            cells.append("%s :> %s" % (_tla_str(sym), '[k |-> "S", to |-> %d, rule |-> 0]' % v if k == "S" else '[k |-> "R", to |-> 0, rule |-> %d]' % v))
        rows.append("  %d :> (%s)" % (s, " @@ ".join(cells)) if cells else "  %d :> << >>" % s)
    out = "DAct%s == (\n%s )\n" % (name, " @@\n".join(rows))
    out += "DRules%s == (\n%s )\n" % (name, " @@\n".join(
        "  %d :> [origin |-> %s, len |-> %d, sig |-> %s]" % (k, _tla_str(r["origin"]), r["len"], _tla_str(r["sig"])) for k, r in sorted((int(k), r) for k, r in t["rules"].items())))
    out += "DStart%s == (%s)\n" % (name, " @@ ".join("%s :> %d" % (_tla_str(k), v) for k, v in sorted(t["starts"].items())))
    out += "DEnd%s == (%s)\n" % (name, " @@ ".join("%s :> %d" % (_tla_str(k), v) for k, v in sorted(t["ends"].items())))
    return out


_PROBE_CHARS = None


def _pattern_signature(term, strings):
    import re
    flags = 0
    for f in term["flags"]:
        flags |= getattr(re, {"i": "I", "m": "M", "s": "S", "x": "X", "u": "U", "l": "L"}.get(f, "U"), 0)
    if term["ptype"] == "PatternStr":
        lit = term["pattern"]
        return frozenset(x for x in strings if (x.lower() == lit.lower() if "i" in term["flags"] else x == lit))
    rx = re.compile(term["pattern"], flags)
    return frozenset(x for x in strings if rx.fullmatch(x))


def same_lexical_behaviour(a, b):
    """two terminal definitions whose TEXT differs: do they accept the same strings?  Decided on every one-character
    string below U+3100 and on every string of up to three characters over one representative of each class of
    characters the two patterns cannot tell apart in short contexts (an equivalent re-spelling of a regular expression
    is not a change of the language; a change this probe does not see is left to the differential parsing)."""
    if a["priority"] != b["priority"]:
        return False
    chars = [chr(c) for c in range(0x3100)]
    try:
        ctx = ["", "a", "1", "-", ".", "e", "^", " "]
        sig = {}
        for c in chars:
            probes = [x + c for x in ctx] + [c + x for x in ctx[1:]] + [c + c]
            sig.setdefault((tuple(_pattern_signature(a, probes)), tuple(_pattern_signature(b, probes))), c)
        if any(k[0] != k[1] for k in sig):
            return False
        reps = list(sig.values())[:40]
        strings = [""] + reps + [x + y for x in reps for y in reps] + [x + y + z for x in reps for y in reps for z in reps]
        return _pattern_signature(a, strings) == _pattern_signature(b, strings)
    except Exception:
        return False


def lrdata_module(shipped, fresh):
    # terminals spelled differently but accepting the same strings are one terminal (noted in the evidence)
    respelled = []
    for n, ta in list(shipped["terminals"].items()):
        tb = fresh["terminals"].get(n)
        if tb is not None and ta != tb and same_lexical_behaviour(ta, tb):
            respelled.append(n)
            shipped["terminals"][n] = dict(tb)
    shipped["respelled_terminals"] = respelled
    terms = sorted(set(shipped["terminals"]) - set(shipped["ignore"]))
    return ("---- MODULE LRData ----\n(* generated by harness/lr.py from the shipped _parser.py (A) and the grammar file (B) *)\nEXTENDS TLC\n"
            + _tla_table(shipped, "A") + _tla_table(fresh, "B")
            + "DTerminals == {%s}\n" % ", ".join(_tla_str(t) for t in terms)
            + "".join("DTerms%s == (%s)\n" % (n, " @@ ".join("%s :> %s" % (_tla_str(k), _tla_str(json.dumps(v, sort_keys=True))) for k, v in sorted(t["terminals"].items())))
                      for n, t in (("A", shipped), ("B", fresh)))
            + "".join("DOpts%s == %s\n" % (n, _tla_str(json.dumps({"ignore": t["ignore"], "lexer": t["lexer"], "flags": t["flags"], "options": t["options"]}, sort_keys=True)))
                      for n, t in (("A", shipped), ("B", fresh)))
            + "====\n")


# =============================================================================== implementation side

LEXEMES = {"SYMBOL": ["m", "s", "kg", "K", "hm", "km", "zz"], "CARAT_EXPONENT": ["^2", "^-1"], "SUPERSCRIPT_EXPONENT": ["²", "⁻¹"],
           "_MULTIPLY": ["*", "⋅"], "_DIVIDE": ["/"], "SIGNED_INT": ["5", "-12"], "SIGNED_FLOAT": ["5.5", "-1.5e2", "1e3", "5.0", "-12.0"]}
UNKNOWN = {"zz"}      # not a registered symbol: a token-accepted text that contains it must raise KeyError


def instantiate(toks, rng):
    parts = [rng.choice(LEXEMES[t]) for t in toks]
    return " ".join(parts), parts


def _tree(t):
    if hasattr(t, "children"):
        return [str(t.data), [_tree(c) for c in t.children]]
    return [getattr(t, "type", "?"), str(t)]


def implementation_runs(args):
    """in an isolated child: feed every TLC word to the shipped engine (recording its stacks), to a parser freshly
    built from the grammar, and to Unit.parse / Quantity.parse"""
    words, seed, extra_texts = args
    sys.path.insert(0, os.path.join(REPO, "src"))
    import measured
    import measured.si  # noqa: F401
    import measured.iec  # noqa: F401   (binary prefixes: cross-base prefix products go through floats)
    from measured import _parser as P
    from measured import Quantity, Unit
    from measured.parsing import ParseError
    import lark
    from lark.tools import build_lalr, lalr_argparser
    grammar = os.path.join(REPO, "src", "measured", "measured.lark")
    fresh, _ = build_lalr(lalr_argparser.parse_args(["--start", "unit", "--start", "quantity", grammar]))
    shipped = P.Parser()
    rng = random.Random(seed)
    log = []
    orig = P.ParserState.feed_token

    def feed(self, token, is_end=False):
        try:
            r = orig(self, token, is_end)
        except Exception:
            log.append((token.type, None))
            raise
        log.append((token.type, list(self.state_stack)))
        return r
    P.ParserState.feed_token = feed
    out = {"c16": [], "c17": [], "traces": [], "n": 0, "accepted": 0}

    def snapshot():
        return (dict(Unit._by_name), dict(Unit._by_symbol), dict(measured.Prefix._by_name), dict(measured.Prefix._by_symbol),
                dict(measured.Dimension._by_name))

    def both(text, start, word=None):
        out["n"] += 1
        del log[:]
        try:
            ta = _tree(shipped.parse(text, start=start))
            ra = "ok"
        except P.LarkError as ex:
            ta, ra = None, "reject:" + type(ex).__name__
        except Exception as ex:
            ta, ra = None, "OTHER:" + type(ex).__name__
        trace = list(log)
        try:
            tb = _tree(fresh.parse(text, start=start))
            rb = "ok"
        except lark.exceptions.LarkError as ex:
            tb, rb = None, "reject:" + type(ex).__name__
        except Exception as ex:
            tb, rb = None, "OTHER:" + type(ex).__name__
        if (ra == "ok") != (rb == "ok") or ra.startswith("OTHER") or rb.startswith("OTHER"):
            out["c16"].append(["language-differs", "%r (%s): shipped %s, grammar %s" % (text, start, ra, rb)])
        elif ra == "ok" and ta != tb:
            out["c16"].append(["tree-differs", "%r (%s): shipped %s, grammar %s" % (text, start, ta, tb)])
        elif ra != "ok" and ra != rb:
            out["c16"].append(["rejection-class-differs", "%r (%s): shipped %s, grammar %s" % (text, start, ra, rb)])
        if word is not None:
            if (ra == "ok") != bool(word["accepted"]):
                out["c16"].append(["engine-differs-from-table", "%r tokens %s: engine %s, table A says accepted=%s" % (text, word["toks"], ra, word["accepted"])])
            toks = [t for t, _ in trace if t != "$END"]
            stacks = [s if s is not None else [] for t, s in trace if t != "$END"]
            out["traces"].append({"start": start, "toks": toks, "stacks": stacks, "accepted": ra == "ok", "text": text,
                                  "ended": any(t == "$END" for t, _ in trace)})
        return ra

    def total(text, start, expect=None, kinds=None, parts=None):
        """C17: outcome alphabet, determinism, registries untouched, magnitude kind"""
        before = snapshot()
        f = Unit.parse if start == "unit" else Quantity.parse
        res = []
        for _ in range(2):
            try:
                r = f(text)
                res.append(("ok", type(r).__name__, repr(r)))
                last = r
            except ParseError as ex:
                res.append(("ParseError", type(ex).__name__, ""))
            except KeyError:
                res.append(("KeyError", "", ""))
            except Exception as ex:
                res.append(("OTHER:" + type(ex).__name__, "", ""))
        after = snapshot()
        o = res[0]
        if o[0].startswith("OTHER"):
            out["c17"].append(["escaped:%s" % o[0][6:], "%s.parse(%r) raised %s" % (start, text, o[0][6:])])
        if res[0] != res[1]:
            out["c17"].append(["nondeterministic", "%s.parse(%r): %s then %s" % (start, text, res[0], res[1])])
        if before != after:
            out["c17"].append(["registry-changed:%s" % ("accepted" if o[0] == "ok" else "rejected"), "%s.parse(%r) changed the name/symbol registries" % (start, text)])
        if o[0] == "ok":
            out["accepted"] += 1
            if o[1] != ("Unit" if start == "unit" else "Quantity"):
                out["c17"].append(["wrong-result-type", "%s.parse(%r) returned a %s" % (start, text, o[1])])
            if start == "quantity" and kinds:
                want = int if kinds[0] == "SIGNED_INT" else float
                if type(last.magnitude) is not want:
                    out["c17"].append(["magnitude-kind", "Quantity.parse(%r) has a %s magnitude, written as %s" % (text, type(last.magnitude).__name__, kinds[0])])
        if expect is not None and parts is not None and any(p in UNKNOWN for p in parts):
            if expect and o[0] != "KeyError":
                out["c17"].append(["unknown-symbol:%s" % o[0], "%s.parse(%r) -> %s, an unregistered symbol must give KeyError" % (start, text, o[0])])
        elif expect is not None:
            if expect and o[0] not in ("ok",):
                out["c17"].append(["token-accepted-text-rejected:%s" % o[0], "%s.parse(%r) -> %s although the token string is in the language and all symbols are registered" % (start, text, o[0])])
            if not expect and o[0] == "ok":
                out["c17"].append(["token-rejected-text-accepted", "%s.parse(%r) returned %s although the token string is not in the language" % (start, text, o[2])])
        return o[0]

    for w in words:
        for _ in range(2):
            text, parts = instantiate(w["toks"], rng)
            both(text, w["start"], w)
            total(text, w["start"], expect=bool(w["accepted"]), kinds=w["toks"], parts=parts)
    # character level: the same words without optional whitespace, plus generated and arbitrary text
    for w in rng.sample(words, min(len(words), 300)):
        text, parts = instantiate(w["toks"], rng)
        tight = "".join(p if i == 0 or not (p[0].isalnum() and parts[i - 1][-1].isalnum()) else " " + p for i, p in enumerate(parts))
        both(tight, w["start"])
        total(tight, w["start"])
    for text in extra_texts:
        for start in ("unit", "quantity"):
            both(text, start)
            total(text, start)
    return out


def _tla_trace_module(traces):
    def seq(xs):
        return "<<" + ", ".join(xs) + ">>"
    rows = []
    for t in traces:
        rows.append('  [start |-> %s, toks |-> %s, stacks |-> %s, ended |-> %s, accepted |-> %s]' % (
            _tla_str(t["start"]), seq(_tla_str(x) for x in t["toks"]),
            seq(seq(str(s) for s in st) for st in t["stacks"]), "TRUE" if t.get("ended") else "FALSE", "TRUE" if t["accepted"] else "FALSE"))
    return "---- MODULE LRTraceData ----\nDTraces == <<\n" + ",\n".join(rows) + "\n>>\n====\n"


def extra_texts(seed, n):
    rng = random.Random(seed)
    alphabet = list("msKgNVΩµ°.-()1²³⁻¹^*/⋅ \t59e+-") + ["kg", "m/s", "m^2", " ", "Å", "☉", "ₐ"]
    out = ["", " ", "m", "5", "5 m", "m/s/s", "m**2", "m^", "^2", "5.5.5 m", "1e400 m", "-0 m", "m⁻", "⁻¹", "5 m²⋅kg⋅s⁻³", "m^2^2", "(m)", "m⋅", "/s",
           "\u0000", "m s", "５ m", "5m", "5 1", "1 1", "nan m", "inf m", "5 m s^-1 / kg", "1"]
    # numbers far outside the machine ranges: exponents and magnitudes of 20, 400 and 5000 digits (int() has a digit limit,
    # cross-base prefix products go through floats)
    sup = str.maketrans("0123456789-", "⁰¹²³⁴⁵⁶⁷⁸⁹⁻")
    for nd in (20, 400, 5000):
        d = "9" * nd
        out += ["m^" + d, "m^-" + d, "m" + d.translate(sup), "m" + ("-" + d).translate(sup), "km^" + d, "KiB^" + d, "km^" + d + "*KiB", "KiB/km^" + d,
                d + " m", "-" + d + " m", d + "." + d + " m", "1e" + d + " m", "1e-" + d + " m", "0." + "0" * nd + "1 m", d + " km^" + d + "*KiB"]
    for _ in range(n):
        k = rng.randint(1, 12)
        out.append("".join(rng.choice(alphabet) for _ in range(k)))
    for _ in range(n // 2):
        k = rng.randint(1, 8)
        out.append("".join(chr(rng.choice([rng.randint(32, 126), rng.randint(0xA0, 0x2FF), rng.randint(0x2070, 0x209F), rng.randint(0x1F300, 0x1F320)])) for _ in range(k)))
    return out


def _common(v, tier, seed):
    shipped, fresh = run_isolated(load_tables)
    data = lrdata_module(shipped, fresh)
    n = 6 if tier == "quick" else 8
    empty_traces = _tla_trace_module([{"start": "unit", "toks": [], "stacks": [], "accepted": False, "ended": False}])
    iso = run_tlc("MC_LR", wd=workdir("tlc_lr_iso"), env={"VERIF_LRMODE": "iso"}, workers=2, timeout=900,
                  overlay={"LRData.tla": data, "LRTraceData.tla": empty_traces})
    run = run_tlc("MC_LR", wd=workdir("tlc_lr_run"), env={"VERIF_LRMODE": "run", "VERIF_LRLEN": n}, workers=8, timeout=3000,
                  overlay={"LRData.tla": data, "LRTraceData.tla": empty_traces})
    return shipped, fresh, data, iso, run


def run_c16(tier, seed):
    v = Verdict("C16", tier, seed)
    v.assumptions = ["the fresh parser is built with lark.tools.standalone's own build function and the Makefile's options (lark 1.3.1 from the tooling venv)",
                     "table equality is decided completely by the product construction; the lexer is compared as data (terminal regexps, flags, priorities, ignore list, options) and by differential parsing"]
    shipped, fresh, data, iso, run = _common(v, tier, seed)
    for res, label in ((iso, "MC_LR[iso: product of the two LALR tables, complete]"), (run, "MC_LR[run: all token strings]")):
        v.add_tlc(res, label)
        for inv in res.violated:
            v.violations.append({"prop": "C16", "key": "tables:%s" % inv, "detail": "TLC: %s violated (%s)\n%s" % (inv, label, (res.traces or [""])[0][:1500]), "path": []})
        if res.errors:
            raise MachineryError("MC_LR failed: %s" % res.errors[:2])
    words = run.exports.get("W", [])
    if not words and not run.violated:
        raise MachineryError("no token strings exported")
    impl = run_isolated(implementation_runs, (words, seed, extra_texts(seed, 300 if tier == "quick" else 3000)))
    v.impl = impl["n"]
    v.evaluations = impl["n"]
    v.nontrivial = sum(1 for w in words if w["accepted"])
    seen = set()
    for k, d in impl["c16"]:
        if k not in seen:
            seen.add(k)
            v.violations.append({"prop": "C16", "key": "parsers:%s" % k, "detail": d, "path": []})
    # trace validation: the shipped ENGINE follows table A
    uniq = {}
    for t in impl["traces"]:
        uniq.setdefault(json.dumps([t["start"], t["toks"], t["stacks"], t["ended"], t["accepted"]]), t)
    traces = list(uniq.values())
    v.extra["engine_runs_recorded"] = len(impl["traces"])
    tr = run_tlc("MC_LR", wd=workdir("tlc_lr_trace"), env={"VERIF_LRMODE": "trace"}, workers=4, timeout=1800,
                 overlay={"LRData.tla": data, "LRTraceData.tla": _tla_trace_module(traces)})
    if tr.errors or tr.violated:
        raise MachineryError("MC_LR[trace] failed: %s %s" % (tr.errors[:2], tr.violated))
    v.add_tlc(tr, "MC_LR[trace validation of %d recorded engine runs]" % len(traces))
    acc = set(tr.exports.get("ACC", []))
    rejected = [t for i, t in enumerate(traces, start=1) if i not in acc]
    v.extra["engine_traces"] = {"recorded": len(traces), "accepted_by_tlc": len(acc)}
    if rejected:
        t = rejected[0]
        v.violations.append({"prop": "C16", "key": "engine:run-not-explained-by-shipped-table",
                             "detail": "%d of %d recorded runs are not behaviours of table A, e.g. text %r tokens %s stacks %s" % (
                                 len(rejected), len(traces), t["text"], t["toks"], t["stacks"]), "path": [t["text"]]})
    v.exhaustive = not iso.violated
    v.extra["terminals_respelled_but_equivalent"] = shipped.get("respelled_terminals", [])
    v.extra["tables"] = {"states_shipped": len(shipped["states"]), "states_fresh": len(fresh["states"]), "rules": len(shipped["rules"]),
                         "terminals": sorted(shipped["terminals"]), "token_strings": len(words)}
    v.rule = ("cases = texts parsed by the shipped parser and by a parser built from the grammar file (every token string up to the "
              "bound instantiated with lexemes twice, whitespace variants, generated text); non-trivial = token strings that are in the language")
    v.samples = [{"start": w["start"], "toks": w["toks"], "accepted": w["accepted"]} for w in random.Random(seed).sample(words, min(5, len(words)))] or ["(none)"]
    return v.finish()


def run_c17(tier, seed):
    v = Verdict("C17", tier, seed)
    v.assumptions = ["token level: every token string up to the bound (both start symbols), accepted or rejected by the LR model of the shipped table",
                     "character level: whitespace variants, alphabet-restricted random text and arbitrary Unicode are generated, not exhausted",
                     "symbols used in instantiations are registered (measured.si imported)"]
    shipped, fresh, data, iso, run = _common(v, tier, seed)
    if run.errors:
        raise MachineryError("MC_LR failed: %s" % run.errors[:2])
    v.add_tlc(run, "MC_LR[run: all token strings]")
    words = run.exports.get("W", [])
    impl = run_isolated(implementation_runs, (words, seed, extra_texts(seed, 1500 if tier == "quick" else 20000)))
    v.impl = impl["n"]
    v.evaluations = impl["n"]
    v.nontrivial = impl["accepted"]
    seen = set()
    for k, d in impl["c17"]:
        if k not in seen:
            seen.add(k)
            v.violations.append({"prop": "C17", "key": k, "detail": d, "path": []})
    v.extra["texts"] = {"token_strings": len(words), "parses": impl["n"], "accepted": impl["accepted"]}
    v.rule = ("cases = texts given to Unit.parse / Quantity.parse (twice each): instantiations of every token string TLC explores "
              "(the spec prescribes accept/reject at token level), whitespace variants and generated text; non-trivial = accepted texts")
    v.samples = [{"start": w["start"], "toks": w["toks"], "accepted": w["accepted"]} for w in random.Random(seed).sample(words, min(5, len(words)))] or ["(none)"]
    return v.finish()
