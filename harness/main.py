"""Entry point: ./check <id> [--tier quick|thorough] [--replay file]"""
import argparse
import os
import sys
import traceback

sys.path.insert(0, os.path.dirname(os.path.abspath(__file__)))

from core import MachineryError  # noqa: E402


def dispatch(prop):
    if prop in ("C01", "C02", "C15"):
        import registry
        return lambda tier, seed: registry.run_registry(prop, tier, seed)
    if prop in ("C04", "C05", "C07"):
        import conversions
        return lambda tier, seed: conversions.run_shapes(prop, tier, seed)
    if prop in ("C03", "C06", "C11", "C12"):
        import quantities
        return lambda tier, seed: quantities.run_quant(prop, tier, seed)
    if prop == "C10":
        import temperature
        return temperature.run_c10
    if prop == "C20":
        import intern
        return intern.run_c20
    if prop in ("C16", "C17"):
        import lr
        return lr.run_c16 if prop == "C16" else lr.run_c17
    if prop == "C14":
        import uncertainty
        return uncertainty.run_c14
    if prop == "C19":
        import names
        return names.run_c19
    if prop == "C18":
        import levels
        return levels.run_c18
    if prop == "C13":
        import text
        return text.run_c13
    if prop == "C09":
        import defgraph
        return defgraph.run_c09
    if prop == "selftest":
        import selftest
        return selftest.run
    if prop == "X-jsoncodec":
        import jsoncodec
        return jsoncodec.run
    if prop == "C08":
        import conversions
        return conversions.run_c08
    raise MachineryError("no check registered for %s" % prop)


def main():
    ap = argparse.ArgumentParser()
    ap.add_argument("prop")
    ap.add_argument("--tier", default=os.environ.get("VERIF_TIER", "quick"))
    ap.add_argument("--replay")
    a = ap.parse_args()
    seed = int(os.environ.get("VERIF_SEED", "0") or 0)
    try:
        if a.replay:
            import replay
            sys.exit(replay.run(a.prop, a.replay))
        rc = dispatch(a.prop)(a.tier, seed)
    except MachineryError as ex:
        print("MACHINERY-FAILURE %s: %s" % (a.prop, ex), file=sys.stderr)
        sys.exit(2)
    except Exception:
        traceback.print_exc()
        print("MACHINERY-FAILURE %s: unexpected exception" % a.prop, file=sys.stderr)
        sys.exit(2)
    sys.exit(rc)


def _cleanup():
    import shutil
    import core
    if os.environ.get("VERIF_KEEP_WORK") != "1":
        shutil.rmtree(core.WORK, ignore_errors=True)


import atexit  # noqa: E402
atexit.register(_cleanup)

if __name__ == "__main__":
    main()
