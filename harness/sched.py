"""A deterministic line-granularity thread scheduler for the real library (no source hooks).

Every thread runs under sys.settrace; at each 'line' event inside the traced package it parks
and waits for the scheduler, which lets exactly one thread advance at a time according to a
plan [(thread index, number of line steps), ...] and then finishes all threads round-robin.
A thread that does not come back within `block_timeout` is treated as blocked (e.g. on a lock
another parked thread holds): the scheduler moves on and the thread re-parks by itself once it
can run - so any correct synchronisation scheme is handled, not only the unsynchronised code.
"""
import queue
import sys
import threading


class Result:
    def __init__(self):
        self.events = []      # ("call", t) / ("ret", t, value or exception)
        self.steps = {}       # thread -> number of line events seen
        self.blocked = 0
        self.preempted_inside = False


class LineScheduler:
    def __init__(self, package_dir, block_timeout=0.02):
        self.pkg = package_dir
        self.block_timeout = block_timeout

    def run(self, bodies, plan, on_main=None):
        """on_main: index of the body that runs on the CALLING thread (the process's main thread when the caller is it)
        while the scheduling itself moves to a helper thread - a library may treat its main thread specially"""
        n = len(bodies)
        go = [threading.Semaphore(0) for _ in range(n)]
        msgs = queue.Queue()
        state = ["new"] * n          # new -> ready (parked) / running / done
        res = Result()
        values = [None] * n

        def tracer_for(t):
            def local(frame, event, arg):
                if event == "line":
                    msgs.put(("yield", t))
                    go[t].acquire()
                return local

            def glob(frame, event, arg):
                if event == "call" and frame.f_code.co_filename.startswith(self.pkg):
                    return local
                return None
            return glob

        def runner(t):
            sys.settrace(tracer_for(t))
            msgs.put(("yield", t))          # park before the first statement of the body
            go[t].acquire()
            try:
                values[t] = ("ok", bodies[t]())
            except BaseException as ex:     # noqa
                values[t] = ("exc", ex)
            finally:
                sys.settrace(None)
                msgs.put(("done", t))

        threads = [threading.Thread(target=runner, args=(t,), daemon=True) for t in range(n) if t != on_main]
        for th in threads:
            th.start()
        if on_main is not None:
            failure = []

            def controller():
                try:
                    self._control(n, plan, msgs, go, state, res, values)
                except BaseException as ex:     # noqa
                    failure.append(ex)
                    for g in go:                # never leave the calling thread parked for ever
                        for _ in range(1000):
                            g.release()
            ctl = threading.Thread(target=controller, daemon=True)
            ctl.start()
            runner(on_main)
            ctl.join(timeout=600)
            if failure:
                raise failure[0]
        else:
            self._control(n, plan, msgs, go, state, res, values)
        for th in threads:
            th.join(timeout=5)
        return res

    def _control(self, n, plan, msgs, go, state, res, values):
        # wait until every thread is parked at its start
        parked = 0
        while parked < n:
            kind, t = msgs.get(timeout=10)
            assert kind == "yield"
            state[t] = "ready"
            parked += 1
        started = [False] * n

        def drain(wait_for, timeout):
            """consume messages until thread `wait_for` reports, or timeout"""
            while True:
                try:
                    kind, t = msgs.get(timeout=timeout)
                except queue.Empty:
                    return False
                if kind == "yield":
                    state[t] = "ready"
                    res.steps[t] = res.steps.get(t, 0) + 1
                else:
                    state[t] = "done"
                    res.events.append(("ret", t, values[t]))
                if t == wait_for:
                    return True

        def step(t):
            """let thread t advance by one line; False if it is done or blocked"""
            if state[t] == "done":
                return False
            if state[t] == "running":
                # granted earlier and still not back: it is blocked; do not wait for it again, just
                # look whether it has come back in the meantime
                if not drain(t, 0.0002):
                    return False
                return state[t] != "done"
            if not started[t]:
                started[t] = True
                res.events.append(("call", t))
            state[t] = "running"
            go[t].release()
            if not drain(t, self.block_timeout):
                res.blocked += 1
                return False
            return state[t] != "done"

        for t, k in plan:
            for _ in range(k):
                if not step(t):
                    break
        # finish: round-robin until all done
        guard = 0
        while any(s != "done" for s in state):
            progressed = False
            for t in range(n):
                if state[t] != "done":
                    before = (state[t], res.steps.get(t, 0))
                    step(t)
                    if (state[t], res.steps.get(t, 0)) != before:
                        progressed = True
            guard += 1
            if not progressed:
                # everything is blocked or still running: wait for any message
                drain(-1, 0.2)
            if guard > 100000:
                raise RuntimeError("scheduler did not terminate")
