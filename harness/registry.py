"""Registry machine: C01, C02, C15 (spec/Registry.tla, MC_Registry, Trace_Registry).

spec -> code: every transition TLC exports from the state graph is executed on the real
library in a process whose state is exactly the spec's from-state, and the projection of the
result and of the whole intern table is compared.
"""
import copy
import io
import json
import os
import pickle
import random

from core import (MachineryError, Verdict, replay_histories, require_ok, require_violation, run_tlc,
                  workdir)

BDIMS = {
    "b1": {"L": 1, "T": 0, "M": 0},
    "b2": {"L": 1, "T": 0, "M": 0},
    "b3": {"L": 1, "T": -2, "M": 1},
    "b4": {"L": 0, "T": -1, "M": 0},
}


def graph_histories(transitions, inits, keyf=None):
    """(from, ev, to) triples -> one history per transition: a shortest path to `from`, then ev."""
    keyf = keyf or (lambda s: json.dumps(s, sort_keys=True))
    out = {}
    for t in transitions:
        out.setdefault(keyf(t["from"]), []).append((t["ev"], keyf(t["to"])))
    roots = sorted(set(keyf(s) for s in inits))
    if not roots:
        raise MachineryError("no initial state among exported transitions")
    rep = {r: [] for r in roots}
    frontier = list(roots)
    while frontier:
        nxt = []
        for k in frontier:
            for ev, to in out.get(k, []):
                if to not in rep:
                    rep[to] = rep[k] + [ev]
                    nxt.append(to)
        frontier = nxt
    hists = []
    for k, lst in out.items():
        if k not in rep:
            continue  # not reachable from an initial state within the export (cannot happen in BFS mode)
        for ev, _ in lst:
            hists.append(rep[k] + [ev])
    return hists, len(out)


class RegistryDriver:
    SPEC = "registry:RegistryDriver"

    def __init__(self, universe=1, props=("C01", "C02", "C15"), seeds=(), foreign=()):
        self.kwargs = {"universe": universe, "props": list(props), "seeds": list(seeds), "foreign": list(foreign)}
        self.seeds = list(seeds)
        self.foreign = list(foreign)
        self.nbase = 3 if universe == 1 else 4
        self.props = set(props)

    def prepare(self):
        import alpha
        self.alpha = alpha
        self.m = alpha.measured
        toks = sorted(BDIMS)[: self.nbase]
        self.U = alpha.Universe({t: BDIMS[t] for t in toks})
        from IPython.lib.pretty import pretty   # import once in the pristine parent, not per fork
        import measured.json  # noqa: F401
        import measured.si  # noqa: F401  (registered prefixes: the properties speak of registered prefixes)
        self.pretty = pretty
        # seed units: built by ordinary algebra before any history starts
        self.seed_objs = {}
        for rec in self.seeds:
            self.seed_objs[self.U.nf_of_spec(rec)] = self._build(rec)
        # blobs "from another process": a forked child builds and serialises, this process never sees the objects
        self.blobs = {}
        if self.foreign:
            from core import run_isolated
            self.blobs = run_isolated(self._foreign_blobs)
        bad = alpha.table_check()
        if bad:
            raise MachineryError("table inconsistent before any operation: %r" % bad[:3])

    def _build(self, rec):
        m = self.m
        u = m.One
        for tok, e in sorted(rec["f"].items()):
            if e:
                u = u * self.U.unit_of[tok] ** e
        if rec["p"]:
            u = m.Prefix(10, rec["p"]) * u
        return u

    def _foreign_blobs(self):
        out = {}
        recs = list(self.foreign) + list(self.seeds) + [{"p": 0, "f": {t: (1 if t == b else 0) for t in self.U.tokens}} for b in self.U.tokens]
        for rec in recs:
            u = self._build(rec)
            for kind in (0, 1, 2, 3, 4):
                val = u if kind == 0 else self._mag(kind) * u
                for codec in ("pickle", "json"):
                    try:
                        out["%s|%s|%d" % (json.dumps(self.U.nf_of_spec(rec)), codec, kind)] = self._dump(val, codec)
                    except Exception as ex:
                        out["%s|%s|%d" % (json.dumps(self.U.nf_of_spec(rec)), codec, kind)] = "!" + type(ex).__name__
        return out

    def _mag(self, kind):
        from decimal import Decimal
        return {1: 5, 2: 5.0, 3: Decimal("5.0"), 4: 2 ** 60 + 1}[kind]

    def fresh_ctx(self):
        obj = {self.U.nf(self.m.One): self.m.One}
        obj.update(self.seed_objs)
        for t in self.U.tokens:
            u = self.U.unit_of[t]
            obj[self.U.nf(u)] = u
        return {"obj": obj, "dims": {}, "blob": {}, "bad": set(), "chg": set()}

    # ---------------------------------------------------------------- one step
    def apply(self, ev, ctx, stats):
        m, U, A = self.m, self.U, self.alpha
        op = ev["op"]
        mm = []
        a = self._arg(ctx, ev["a"])
        if a is None and op != "loadf":
            return [{"prop": "DRIFT", "key": "arg-missing", "detail": "no object for %r" % (ev["a"],)}]
        b = ev["k"] if op in ("render", "dump", "load", "loadf") else ev["n"]
        kind = ev["n"] if op in ("dump", "load", "loadf") else 0
        if op in ("mul", "div", "touch"):
            b = self._arg(ctx, ev["b"])
            if b is None:
                return [{"prop": "DRIFT", "key": "arg-missing", "detail": "no object for %r" % (ev["b"],)}]
        before = dict(m.Unit._known)
        # what the live object reported before this step (a load must give back the identical unit WITH its identical parts)
        self._snap = (a.dimension, a.prefix) if (op == "load" and a is not None) else None
        out, res = "ok", []
        blob = orig = None
        if op == "load":
            blob, orig = ctx["blob"][(U.nf(a), b, kind)], ctx["blobobj"][(U.nf(a), b, kind)]
        elif op == "loadf":
            blob = self.blobs["%s|%s|%d" % (json.dumps(U.nf_of_spec(ev["a"])), b, kind)]
        try:
            if op == "mul":
                res = [a * b]
            elif op == "div":
                res = [a / b]
            elif op == "pow":
                res = [a ** b]
            elif op == "root":
                res = [a.root(b)]
            elif op == "pmul":
                res = [m.Prefix(10, b) * a]
            elif op == "as_ratio":
                res = list(a.as_ratio())
            elif op == "quantify":
                res = [a.quantify().unit]
            elif op == "render":
                if b == "str":
                    str(a)
                    repr(a)
                elif b == "ratio":
                    format(a, "/")
                elif b == "pretty":
                    self.pretty(a)
                elif b == "mathml":
                    a._repr_html_()
                res = []
            elif op == "defdim":
                n = len(m.Dimension._fundamental)
                m.Dimension.define("verifdim%s" % "abcdefghij"[n % 10], "VD%s" % "abcdefghij"[n % 10])
                res = []
            elif op == "touch":
                try:
                    if ev["k"] == "convert":
                        (1 * a).in_unit(b)
                    else:
                        (1 * a) == (1 * b)
                        (1 * a) < (1 * b)
                except Exception:
                    pass  # which conversions succeed / how they fail is C07's business
                res = []
            elif op == "dump":
                val = a if kind == 0 else self._mag(kind) * a
                ctx["blob"][(U.nf(a), b, kind)] = self._dump(val, b)
                ctx["blobobj"] = ctx.get("blobobj", {})
                ctx["blobobj"][(U.nf(a), b, kind)] = val
                if b in ("pickle", "json"):
                    # the unit's dimension and prefix objects are serialised at the same moment
                    ctx.setdefault("blobparts", {})[(U.nf(a), b, kind)] = [(name, part, self._dump(part, b)) for name, part in (("dimension", a.dimension), ("prefix", a.prefix))]
                res = []
            elif op in ("load", "loadf"):
                if blob.startswith("!"):
                    raise _DumpFailed(blob[1:])
                got = self._load(blob, b, orig)
                res = self._judge_loaded(got, kind, b, a, ev, mm, op)
                if op == "load":
                    for name, part, pblob in ctx.get("blobparts", {}).get((U.nf(a), b, kind), []):
                        try:
                            back = self._load(pblob, b, part)
                        except Exception as ex:
                            back = ex
                        if back is not part:
                            mm.append(self._mm("C15", "load-%s:%s-serialised-earlier-not-identical" % (b, name),
                                               "the %s of %s serialised at dump time came back as %r (not the interned %r)" % (name, A.key_str(a), back, part)))
            else:
                raise MachineryError("unknown op %r" % op)
        except m.FractionalDimensionError:
            out = "Fractional"
        except _DumpFailed as ex:
            out = "DUMP:" + str(ex)
        except MachineryError:
            raise
        except Exception as ex:  # any other escape
            out = "OTHER:" + type(ex).__name__

        exp_out = ev["out"]
        tag = "%s" % op if op != "render" else "render-%s" % b
        if op in ("dump", "load", "loadf"):
            tag = "%s-%s" % (op, b)
        # --- outcome class
        if out != exp_out:
            if op == "root" and exp_out == "Fractional" and out == "ok":
                stats["root_extra_ok"] = stats.get("root_extra_ok", 0) + 1   # allowed if consistent (below)
            elif op == "root" and exp_out == "ok" and out == "Fractional":
                mm.append(self._mm("C02", "%s:refused-exact-root" % tag,
                                   "%s.root(%s) raised FractionalDimensionError but the exponents divide exactly" % (A.key_str(a), b)))
            else:
                if op in ("load", "loadf") and b == "json" and kind > 0 and blob and not blob.startswith("!") \
                        and " " in json.loads(blob).get("unit", ""):
                    # the unit text carries a folded magnitude ("1000 m²"), which the grammar cannot read as a unit
                    mm.append(self._mm("C15", "json-quantity:unit-text-with-folded-magnitude:%s" % out,
                                       "%s of a %s quantity of %s: unit text %r -> %s" % (op, _KINDS[kind], _short({"op": "", "a": ev["a"]})["a"], json.loads(blob)["unit"], out)))
                elif op in ("dump", "load", "loadf"):
                    mm.append(self._mm("C15", "%s-%s-%s:outcome:%s:%s" % (op, b, _KINDS[kind], out, self._shape(ev["a"])),
                                       "%s of %s (%s) via %s: %s" % (op, _short({"op": "", "a": ev["a"]})["a"], _KINDS[kind], b, out)))
                else:
                    mm.append(self._mm("C02", "%s:outcome" % tag, "expected %s got %s on %s" % (exp_out, out, A.key_str(a))))
        # --- results: normal form (group laws), dimension, identity
        if out == "ok" and exp_out == "ok" and res:
            for i, r in enumerate(res):
                if not isinstance(r, m.Unit):
                    mm.append(self._mm("C02", "%s:result-type" % tag, "result %r is not a Unit" % (r,)))
                    continue
                nf = U.nf(r)
                want = U.nf_of_spec(ev["r"][i])
                if op in ("as_ratio",):
                    pass  # which split is returned is not prescribed; its dimension is (below)
                elif nf != want:
                    mm.append(self._mm("C15" if op in ("load", "loadf") else "C02", "%s:normal-form" % tag,
                                       "%s(%s, %s) gave %s, group law says %s" % (op, A.key_str(a), b if op not in ("mul", "div") else A.key_str(b), nf, want)))
                dv = A.dimvec(r.dimension)
                if nf == want and dv != ev["d"][i]:
                    mm.append(self._mm("C01", "%s:result-dimension" % tag,
                                       "%s of %s reports dimension %s, factors give %s" % (op, A.key_str(a), dv, ev["d"][i])))
                self._see(ctx, r, nf, mm, tag, "C15" if op in ("load", "loadf") else "C02")
        elif out == "ok" and res:
            for r in res:
                if isinstance(r, m.Unit):
                    self._see(ctx, r, U.nf(r), mm, tag, "C02")
        # --- the implementation's own table: C01 / C02 invariants on every entry
        for prop, clause, desc in A.table_check(ctx["bad"]):
            mm.append(self._mm(prop, "%s:%s" % (tag, clause), desc))
        # --- permanence: nothing already in the table may change its object or its dimension
        now = m.Unit._known
        for k, u in before.items():
            if now.get(k) is not u:
                mm.append(self._mm("C02", "%s:entry-replaced" % tag, "table entry for %s was replaced or removed" % A.key_str(u)))
        for oid, (u, ex) in list(ctx["dims"].items()):
            if A.dim_key(u.dimension) != ex and oid not in ctx["chg"]:
                ctx["chg"].add(oid)
                mm.append(self._mm("C01", "%s:dimension-changed" % tag, "%s changed its dimension" % A.key_str(u)))
        if op == "load" and kind == 0 and len(now) != len(before):
            mm.append(self._mm("C15", "load-%s:table-grew" % b, "loading %s added %d table entries" % (A.key_str(a), len(now) - len(before))))
        new = len(now) - len(before)
        if new:
            stats["created"] = stats.get("created", 0) + 1
        stats["op:" + op] = stats.get("op:" + op, 0) + 1
        return [x for x in mm if x["prop"] in self.props or x["prop"] == "DRIFT"]

    def _arg(self, ctx, rec):
        """the live object for a spec unit; units the spec interned as a side effect (rendering) are
        looked up in the implementation's table"""
        nf = self.U.nf_of_spec(rec)
        o = ctx["obj"].get(nf)
        if o is None:
            for u in self.m.Unit._known.values():
                if self.U.nf(u) == nf:
                    ctx["obj"][nf] = o = u
                    break
        return o

    def _see(self, ctx, r, nf, mm, tag, prop):
        """identity bookkeeping: one object per normal form, for ever"""
        prev = ctx["obj"].get(nf)
        if prev is None:
            ctx["obj"][nf] = r
        elif prev is not r:
            mm.append(self._mm(prop, "%s:identity" % tag, "a second object for normal form %s" % (nf,)))
        if id(r) not in ctx["dims"]:
            ctx["dims"][id(r)] = (r, self.alpha.dim_key(r.dimension))

    def _mm(self, prop, key, detail):
        return {"prop": prop, "key": key, "detail": detail}

    def _shape(self, rec):
        es = sorted(e for e in rec["f"].values() if e)
        return ("prefixed " if rec["p"] else "") + "exps=%s" % (es,)

    def _dump(self, a, codec):
        if codec == "pickle":
            return pickle.dumps(a).hex()
        if codec in ("copy", "deepcopy"):
            return ""
        if codec == "json":
            from measured.json import MeasuredJSONEncoder
            return json.dumps(a, cls=MeasuredJSONEncoder)
        raise MachineryError(codec)

    def _load(self, blob, codec, orig):
        if codec == "pickle":
            return pickle.loads(bytes.fromhex(blob))
        if codec == "copy":
            return copy.copy(orig)
        if codec == "deepcopy":
            return copy.deepcopy(orig)
        if codec == "json":
            from measured.json import MeasuredJSONDecoder
            return json.loads(blob, cls=MeasuredJSONDecoder)
        raise MachineryError(codec)

    def _judge_loaded(self, got, kind, codec, a, ev, mm, op):
        """returns the list of Unit results to be judged like any other result"""
        m = self.m
        if kind == 0:
            if isinstance(got, m.Unit) and self._snap is not None:
                if got.dimension is not self._snap[0]:
                    mm.append(self._mm("C15", "%s-%s:unit-dimension-object-not-identical" % (op, codec),
                                       "after loading, %r reports dimension object %r instead of the one it had (%r)" % (got, tuple(got.dimension.exponents), tuple(self._snap[0].exponents))))
                if got.prefix is not self._snap[1]:
                    mm.append(self._mm("C15", "%s-%s:unit-prefix-object-not-identical" % (op, codec), "after loading, %r carries another prefix object" % (got,)))
            if isinstance(got, m.Unit):
                # a unit's prefix and dimension must round-trip to the identical objects too
                for part, name in ((got.prefix, "prefix"), (got.dimension, "dimension")):
                    for c2 in ("pickle", "copy", "deepcopy", "json"):
                        try:
                            back = self._load(self._dump(part, c2), c2, part)
                        except Exception as ex:
                            back = ex
                        if back is not part:
                            mm.append(self._mm("C15", "%s-%s:%s-not-identical" % (op, c2, name), "%s of %r came back as %r" % (name, got, back)))
                names = (got.names, got.symbols)
                if a is not None and got is a and ctx_names(a) != names:
                    mm.append(self._mm("C15", "%s-%s:names-changed" % (op, codec), "names/symbols changed"))
            return [got]
        want_type = type(self._mag(kind))
        if not isinstance(got, m.Quantity):
            mm.append(self._mm("C15", "%s-%s-%s:not-a-quantity" % (op, codec, _KINDS[kind]), "got %r" % (got,)))
            return []
        if type(got.magnitude) is not want_type:
            mm.append(self._mm("C15", "%s-%s-%s:magnitude-type" % (op, codec, _KINDS[kind]),
                               "magnitude came back as %s %r" % (type(got.magnitude).__name__, got.magnitude)))
        if got.magnitude != self._mag(kind):
            mm.append(self._mm("C15", "%s-%s-%s:magnitude-value" % (op, codec, _KINDS[kind]), "magnitude %r" % (got.magnitude,)))
        if codec == "json":
            # an equal quantity is demanded, not the identical unit object
            want = self.U.nf_of_spec(ev["a"])
            if self.U.nf(got.unit) != want:
                mm.append(self._mm("C15", "%s-json-%s:unit-differs:%s" % (op, _KINDS[kind], self._shape(ev["a"])),
                                   "unit came back as %s" % (self.U.nf(got.unit),)))
            return []
        return [got.unit]


def ctx_names(u):
    return (u.names, u.symbols)


class _DumpFailed(Exception):
    pass


_KINDS = {0: "unit", 1: "int", 2: "float", 3: "Decimal", 4: "bigint"}


# ------------------------------------------------------------------------------ checks

def tlc_registry(label, depth, ops="", shipped="", universe=1, export=True, simulate=None, seed=None,
                 timeout=3000, seeds=0, foreign=1, kinds=5):
    env = {"VERIF_DEPTH": depth, "VERIF_UNIVERSE": universe, "VERIF_SEEDS": seeds, "VERIF_FOREIGN": foreign,
           "VERIF_KINDS": kinds}
    if ops:
        env["VERIF_OPS"] = ops
    if shipped:
        env["VERIF_SHIPPED"] = shipped
    cfg = "MC_Registry.cfg" if export else "MC_Registry_noexport.cfg"
    if simulate:
        cfg = "MC_Registry_sim.cfg"
    return run_tlc("MC_Registry", cfg=cfg, wd=workdir("tlc_reg_" + label), env=env,
                   workers=1 if simulate else (8 if depth <= 2 else None), simulate=simulate,
                   depth=(depth if simulate else None), seed=seed, timeout=timeout)


def sim_histories(steps):
    """@@S lines of a 1-worker simulation -> list of behaviours (each a list of events)."""
    hists, cur = [], None
    for s in steps:
        e = s["ev"]
        if e["op"] == "init":
            if cur:
                hists.append(cur)
            cur = []
        elif cur is not None:
            cur.append(e)
    if cur:
        hists.append(cur)
    return hists


def nonvacuity(v):
    """The mechanism variants must violate C01 in the model (the invariant has teeth)."""
    for dev in ("as_ratio_dim", "root_floor"):
        r = tlc_registry("nv_" + dev, 3, shipped=dev, export=False)
        require_violation(r, "C01_DimConsistent", "Registry with Shipped={%s}" % dev)
        v.extra.setdefault("nonvacuity", []).append({"variant": dev, "violated": r.violated, "states": r.distinct})


def run_registry(prop, tier, seed):
    v = Verdict(prop, tier, seed)
    v.assumptions = [
        "bounded histories: every behaviour of the Registry model up to the stated depth over the stated universe",
        "alpha reads Unit._known, unit.prefix/.factors/.dimension; prefixes of base 10 only in this model",
        "text of renderings is never compared",
    ]
    q = tier == "quick"
    configs = []
    if prop in ("C01", "C02"):
        configs.append(("alg", dict(depth=2 if q else 3, ops="", universe=1)))
        configs.append(("alg_seeded", dict(depth=1 if q else 2, ops="", universe=1, seeds=1)))
        configs.append(("roots", dict(depth=2 if q else 3, ops="roots", universe=1, seeds=1)))
        configs.append(("ratio", dict(depth=3 if q else 4, ops="ratio", universe=1, seeds=1)))
        configs.append(("touch", dict(depth=2, ops="touch", universe=1, seeds=0 if q else 1)))
        configs.append(("defdim", dict(depth=3 if q else 4, ops="defdim", universe=1, kinds=1 if q else 2)))
        configs.append(("foreign", dict(depth=2, ops="foreign", universe=1, seeds=1, foreign=1 if q else 2, kinds=2)))
        if not q:
            configs.append(("alg_u2", dict(depth=2, ops="", universe=2)))
    if prop == "C15":
        configs.append(("codec", dict(depth=2, ops="codec", universe=1, seeds=1)))
        configs.append(("foreignq", dict(depth=2, ops="foreignq", universe=1, seeds=1, foreign=1)))
        configs.append(("defdim", dict(depth=3 if q else 4, ops="defdim", universe=1, kinds=1 if q else 2)))
        if not q:
            configs.append(("foreign", dict(depth=2, ops="foreign", universe=1, seeds=1, foreign=1)))
    samples = []
    for label, kw in configs:
        res = tlc_registry(label, **kw)
        require_ok(res, "MC_Registry[%s]" % label)
        v.add_tlc(res, "MC_Registry[%s %s]" % (label, kw))
        trans = res.exports.get("T", [])
        if not trans:
            raise MachineryError("no transitions exported by MC_Registry[%s]" % label)
        hists, nstates = graph_histories(trans, res.exports.get("I", []))
        sf = res.exports["SEEDS"][0]
        drv = RegistryDriver(universe=kw["universe"], seeds=sf["seeds"], foreign=sf["foreign"])
        rep = replay_histories(hists, drv, label="reg_" + label)
        v.impl += rep["n"]
        v.evaluations += rep["n"]
        v.nontrivial += rep["stats"].get("created", 0) if prop != "C15" else rep["stats"].get("op:load", 0) + rep["stats"].get("op:loadf", 0)
        v.add_violations(rep["mm"])
        v.extra.setdefault("replay", []).append({"config": label, "transitions_exported": len(trans),
                                                 "spec_states": nstates, "executed": rep["n"],
                                                 "ops": {k[3:]: n for k, n in rep["stats"].items() if k.startswith("op:")}})
        random.Random(seed).shuffle(hists)
        samples += [[_short(e) for e in h] for h in hists[:2]]
        if label == "alg":
            v.exhaustive = True
    if prop == "C01":
        nonvacuity(v)
    if prop == "C02":
        import algebra
        algebra.run_algebra(v, "C02", seed)
    # deep random behaviours from TLC's simulator, replayed the same way
    n, d = (150, 8) if q else ((3000, 12) if prop == "C15" else (2000, 12))     # universe 2 generates slowly (≈ 1 behaviour/s)
    ops = "" if prop in ("C01", "C02") else "codec"
    simu = 1 if (q or prop == "C15") else 2
    res = tlc_registry("sim", d, ops=ops, universe=simu, simulate=n, seed=seed, seeds=0 if q else 1, timeout=6000)
    require_ok(res, "MC_Registry[simulate]")
    v.add_tlc(res, "MC_Registry[simulate num=%d depth=%d ops=%s]" % (n, d, ops or "all"))
    hists = [[e for e in b if e["op"] != "init"] for b in res.behaviours]
    if not hists:
        raise MachineryError("simulation exported no behaviours")
    from alpha_seeds import seeds_for
    rep = replay_histories(hists, RegistryDriver(universe=simu, seeds=[] if q else seeds_for(simu)),
                           split_depth=1, label="reg_sim")
    v.impl += rep["n"]
    v.evaluations += rep["n"]
    v.nontrivial += rep["stats"].get("created", 0) if prop != "C15" else rep["stats"].get("op:load", 0)
    v.add_violations(rep["mm"])
    v.extra.setdefault("replay", []).append({"config": "simulate", "behaviours": len(hists), "executed": rep["n"]})
    if prop in ("C01", "C02") and (not q or os.environ.get("VERIF_SUITE_TRACE") == "1"):
        suite_trace(v, prop)
    if prop == "C15":
        walk = run_isolated_walk(seed)
        v.impl += walk["n"]
        v.evaluations += walk["n"]
        v.nontrivial += walk["n"]
        seen_keys = set()
        for k, dd in walk["bad"]:
            if k not in seen_keys:
                seen_keys.add(k)
                v.violations.append({"prop": "C15", "key": k, "detail": dd, "path": [k]})
        v.extra["registry_walk"] = {"objects": walk["objects"], "roundtrips": walk["n"], "violating": len(walk["bad"])}
        from core import run_isolated
        inc = run_isolated(_incremental_json, seed)
        v.impl += 2 * inc["n"]
        v.evaluations += 2 * inc["n"]
        for k, dd in inc["bad"]:
            if k not in seen_keys:
                seen_keys.add(k)
                v.violations.append({"prop": "C15", "key": k, "detail": dd, "path": [k]})
        v.extra["incremental_imports"] = {"quantities": inc["n"], "violating": len(inc["bad"])}
    if prop == "C15":
        v.rule = ("cases = transitions of the TLC state graph of MC_Registry with Dump/Load/LoadForeign actions (units and "
                  "quantities of int/float/Decimal magnitude; pickle, copy, deepcopy, JSON), one real execution each; "
                  "non-trivial = executions of a Load or LoadForeign")
    else:
        v.rule = ("cases = transitions of the TLC state graph of MC_Registry (one real execution each, in a forked "
                  "process whose state is the spec's from-state); non-trivial = executions that created at least one "
                  "new Unit._known entry (the only moments at which a stored dimension / a canonical object is decided)")
    v.samples = samples
    return v.finish()


def run_isolated_walk(seed):
    from core import run_isolated
    return run_isolated(_registry_walk, seed)


def _registry_walk(seed):
    """C15's registry-wide quantifier: EVERY registered dimension, prefix and unit of the shipped modules (the Load action of
    the spec over the whole shipped universe: the prescribed result is always the identical object, names unchanged, table unchanged)"""
    import sys
    from core import REPO
    sys.path.insert(0, os.path.join(REPO, "src"))
    import measured
    import measured.systems  # noqa: F401
    from measured import Dimension, Prefix, Unit
    from measured.json import MeasuredJSONDecoder, MeasuredJSONEncoder, codecs_installed
    from decimal import Decimal
    out = {"n": 0, "bad": [], "objects": 0}
    objs = [("dimension", d) for d in dict.fromkeys(Dimension._by_name.values())]
    objs += [("prefix", p) for p in dict.fromkeys(Prefix._by_name.values())]
    objs += [("unit", u) for u in dict.fromkeys(Unit._by_name.values())]
    out["objects"] = len(objs)
    sizes = (len(Dimension._known), len(Prefix._known), len(Unit._known))
    for kind, o in objs:
        names = (getattr(o, "names", None), getattr(o, "symbols", None), getattr(o, "name", None), getattr(o, "symbol", None))
        for codec, f in (("pickle", lambda x: pickle.loads(pickle.dumps(x))), ("copy", copy.copy), ("deepcopy", copy.deepcopy),
                         ("json", lambda x: json.loads(json.dumps(x, cls=MeasuredJSONEncoder), cls=MeasuredJSONDecoder))):
            out["n"] += 1
            try:
                back = f(o)
            except Exception as ex:
                out["bad"].append(["walk:%s-%s:raised:%s" % (kind, codec, type(ex).__name__), "%r" % (o,)])
                continue
            if back is not o:
                out["bad"].append(["walk:%s-%s:not-identical" % (kind, codec), "%r came back as %r" % (o, back)])
        after = (getattr(o, "names", None), getattr(o, "symbols", None), getattr(o, "name", None), getattr(o, "symbol", None))
        if after != names:
            out["bad"].append(["walk:%s:names-changed" % kind, "%r" % (o,)])
        if kind == "unit":
            for mag in (7, 2.5, Decimal("1.25"), Decimal("1.2345678901234567890123456789012345"), Decimal("1E+3"), float("inf"), float("-inf"),
                        2 ** 53 + 1, -(10 ** 20), 5e-324, 1.7976931348623157e308):
                q = measured.Quantity(mag, o)
                for codec, f in (("pickle", lambda x: pickle.loads(pickle.dumps(x))), ("copy", copy.copy), ("deepcopy", copy.deepcopy),
                                 ("json", lambda x: json.loads(json.dumps(x, cls=MeasuredJSONEncoder), cls=MeasuredJSONDecoder))):
                    out["n"] += 1
                    try:
                        back = f(q)
                    except Exception as ex:
                        out["bad"].append(["walk:quantity-%s:raised:%s" % (codec, type(ex).__name__), "%r" % (q,)])
                        continue
                    if type(back.magnitude) is not type(mag) or back.magnitude != mag:
                        out["bad"].append(["walk:quantity-%s:magnitude" % codec, "%r -> %r" % (q, back)])
                    if codec != "json" and back.unit is not o:
                        out["bad"].append(["walk:quantity-%s:unit-not-identical" % codec, "%r -> %r" % (q, back)])
                    if codec == "json" and back.unit is not o and not (back == q):
                        out["bad"].append(["walk:quantity-json:not-equal", "%r -> %r" % (q, back)])
    if (len(Dimension._known), len(Prefix._known)) != sizes[:2]:
        out["bad"].append(["walk:tables-grew", "dimension/prefix tables grew during round trips"])
    return out


def _incremental_json(seed):
    """C15 over time: one process imports the unit modules stage by stage; after each stage every prefix x named unit is
    (a) spelled as a string unit, Quantity(3, str(unit)), and (b) sent through the JSON codec as a quantity.  What a unit
    text meant BEFORE a later module declared the same symbol must not leak into how it is decoded afterwards."""
    import importlib
    import sys
    from core import REPO
    sys.path.insert(0, os.path.join(REPO, "src"))
    import measured as m
    from measured import Prefix, Quantity, Unit
    from measured.json import MeasuredJSONDecoder, MeasuredJSONEncoder
    from text import STAGES, first_term_key_of
    out = {"n": 0, "bad": []}
    for si, stage in enumerate(STAGES, start=1):
        for mod in stage:
            importlib.import_module("measured." + mod)
        prefixes = [p for _, p in sorted(Prefix._by_symbol.items())]
        units = []
        for _, u in sorted(Unit._by_symbol.items(), key=lambda kv: kv[0]):
            if u not in units and u.symbol:
                units.append(u)
        for u in units:
            for p in [None] + prefixes:
                unit = u if p is None else p * u
                tag = first_term_key_of(unit)       # the text that str() writes first: prefix symbol + first factor's symbol
                q = Quantity(3, unit)
                out["n"] += 1
                text = str(unit)
                # what the text means NOW, by the parser itself (whether str() is parseable / unambiguous is C13's subject)
                try:
                    now = Unit.parse(text)
                except Exception:
                    now = None
                for what, f in (("string-unit", lambda: Quantity(3, text)),
                                ("json", lambda: json.loads(json.dumps(q, cls=MeasuredJSONEncoder), cls=MeasuredJSONDecoder))):
                    try:
                        back = f()
                    except Exception as ex:
                        if now is None:
                            cause = "folded-magnitude" if " " in text else "unregistered-prefix"
                            key = ("json-quantity:unit-text-with-folded-magnitude:OTHER:%s" % type(ex).__name__) if cause == "folded-magnitude" else \
                                  ("json-quantity:unit-text-with-unregistered-prefix:OTHER:%s" % type(ex).__name__)
                            out["bad"].append([key, "%s of %r (text %r)" % (what, q, text)])
                        else:
                            out["bad"].append(["incremental-%s:raised:%s:%s" % (what, type(ex).__name__, tag), "stage %d: %s of %r although Unit.parse(%r) works" % (si, what, q, text)])
                        continue
                    try:
                        equal = back.unit is unit or (back == q and q == back)
                    except Exception:
                        equal = False
                    if equal:
                        continue
                    if now is not None and back.unit is now:
                        # the text itself reads as another unit (a prefix+symbol collision): the C13 finding seen through the codec
                        out["bad"].append(["json-quantity:unit-text-reads-as-another-unit:%s" % tag, "%s of %r gave %r (str() is %r)" % (what, q, back, text)])
                    else:
                        out["bad"].append(["incremental-%s:not-what-the-text-means-now:%s" % (what, tag),
                                           "after importing stage %d (%s): %s of %r gave %r, Unit.parse(%r) is %r" % (si, "+".join(stage), what, q, back, text, now)])
    return out


def suite_trace(v, prop):
    """code -> spec: run the repository's own test suite (one process) under the external recorder plugin and let TLC
    validate the recorded history of the intern table; then corrupt one recorded field and demand a rejection."""
    import subprocess
    from core import PY, REPO, VERIF
    wd = workdir("suite_trace")
    out = os.path.join(wd, "trace.ndjson")
    env = dict(os.environ, MEASURED_VERIF="1", VERIF_TRACE_OUT=out, HYPOTHESIS_STORAGE_DIRECTORY=os.path.join(wd, "hyp"),
               PYTHONPATH=os.path.join(REPO, "src") + os.pathsep + os.path.join(VERIF, "harness"), PYTHONDONTWRITEBYTECODE="1",
               COVERAGE_FILE=os.path.join(wd, "cov"))
    p = None
    for attempt in range(2):    # the suite occasionally hangs in a hypothesis test (also on the unchanged tree)
        try:
            p = subprocess.run([PY, "-m", "pytest", "-q", "-p", "no:cacheprovider", "-n", "0", "--no-cov", "-p", "verif_pytest_recorder",
                                "--rootdir", REPO, os.path.join(REPO, "tests"), os.path.join(REPO, "src")],
                               cwd=wd, env=env, stdout=subprocess.PIPE, stderr=subprocess.STDOUT, text=True, timeout=900)
            break
        except subprocess.TimeoutExpired:
            continue
    if p is None or not os.path.exists(out) or os.path.getsize(out) == 0:
        raise MachineryError("recording the test suite failed: %s" % (p.stdout[-1500:] if p else "timeout"))
    res = run_tlc("MC_RegistryTrace", wd=workdir("tlc_reg_trace"), env={"VERIF_TRACE_FILE": out}, workers=1, timeout=3000)
    if res.errors or not res.exports.get("DONE"):
        raise MachineryError("MC_RegistryTrace failed: %s" % res.errors[:2])
    done = res.exports["DONE"][-1]
    v.add_tlc(res, "MC_RegistryTrace: the repository's test suite under the recorder (%d events, %d interned units)" % (done["events"], done["entries"]))
    v.impl += done["entries"]
    v.evaluations += done["entries"]
    v.nontrivial += done["entries"]
    v.extra["suite_trace"] = {"events": done["events"], "entries": done["entries"], "pytest_summary": (p.stdout.strip().splitlines() or [""])[-1]}
    seen = set()
    for b in res.exports.get("BAD", []):
        pr = "C01" if b["clause"].startswith("C01") else "C02"
        key = "suite-trace:%s" % b["clause"]
        if pr == prop and key not in seen:
            seen.add(key)
            v.violations.append({"prop": prop, "key": key, "detail": "during %s: %s" % (b["test"], json.dumps(b["what"], ensure_ascii=False)[:400]), "path": [b["test"]]})
    # binding self-test: one corrupted dimension exponent must be rejected
    lines = open(out).read().splitlines()
    for li, line in enumerate(lines):
        e = json.loads(line)
        hit = next((n for n in e.get("new", []) if len(n[2]) > 1), None)
        if hit:
            hit[3][1] += 1
            lines[li] = json.dumps(e)
            break
    bad = os.path.join(wd, "corrupted.ndjson")
    open(bad, "w").write("\n".join(lines) + "\n")
    res2 = run_tlc("MC_RegistryTrace", wd=workdir("tlc_reg_trace_selftest"), env={"VERIF_TRACE_FILE": bad}, workers=1, timeout=3000)
    if not any(b["clause"] == "C01_DimConsistent" for b in res2.exports.get("BAD", [])):
        raise MachineryError("self-test failed: a corrupted recorded dimension was not rejected by MC_RegistryTrace")
    v.extra["suite_trace"]["selftest"] = "a corrupted dimension exponent was rejected by TLC"
    os.remove(bad)


def _short(e):
    def u(x):
        if isinstance(x, dict) and "f" in x:
            return "%s|%s" % (x["p"], ",".join("%s^%d" % (k, n) for k, n in sorted(x["f"].items()) if n))
        return x
    return {"op": e["op"], "a": u(e.get("a")), "b": u(e.get("b")), "n": e.get("n"), "k": e.get("k"), "out": e.get("out")}
