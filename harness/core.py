"""Shared machinery: TLC runner, fork-trie replay, findings, evidence, verdicts.

Exit codes used by ./check: 0 = property held on everything explored, 1 = violation
(not listed in known_findings.txt), 2 = machinery failure (never a verdict).
"""
import hashlib
import json
import os
import re
import shutil
import subprocess
import sys
import time
import traceback

VERIF = os.path.dirname(os.path.dirname(os.path.abspath(__file__)))
SPEC = os.path.join(VERIF, "spec")
# scratch space is per process, so that several checks can run at the same time without colliding
WORK = os.path.join(VERIF, ".work", "run%d" % os.getpid())
REPO = os.environ.get("VERIF_REPO", "/repo")
PY = "/venv/bin/python"
NPROC = max(1, min(16, os.cpu_count() or 1))


class MachineryError(Exception):
    pass


def workdir(name, clean=True):
    d = os.path.join(WORK, name)
    if clean and os.path.isdir(d):
        shutil.rmtree(d, ignore_errors=True)
    os.makedirs(d, exist_ok=True)
    return d


# --------------------------------------------------------------------------- TLC

_RE_STATES = re.compile(r"^(\d+) states generated, (\d+) distinct states found, (\d+) states left on queue")
_RE_DEPTH = re.compile(r"^The depth of the complete state graph search is (\d+)")
_RE_INV = re.compile(r"^Error: Invariant (\S+) is violated")
_RE_PROP = re.compile(r"^Error: Action property (\S+) is violated")
_RE_COVER = re.compile(r"^<(\w+) line (\d+), col (\d+) to line (\d+), col (\d+) of module (\w+)>: (\d+):(\d+)")


class TlcResult:
    def __init__(self):
        self.generated = 0
        self.distinct = 0
        self.depth = 0
        self.violated = []      # invariant / property names
        self.errors = []        # other Error: lines
        self.exports = {}       # tag -> list of decoded JSON values
        self.coverage = {}      # action name -> (generated, distinct)
        self.wall = 0.0
        self.log = None
        self.cmd = ""
        self.completed = False
        self.traces = []        # textual error traces (list of str)

    @property
    def ok(self):
        return self.completed and not self.violated and not self.errors


def run_tlc(module, cfg=None, wd=None, workers=None, env=None, simulate=None, depth=None,
            seed=None, timeout=1800, coverage=False, cont=False, dfs=False, extra=(), clean=True, overlay=None):
    """Run TLC on spec/<module>.tla from a scratch copy of spec/ (so that TLC's files never
    land in the tracked tree).  `env` values are visible to the spec through IOEnv."""
    wd = wd or workdir("tlc_" + module)
    for f in os.listdir(SPEC):
        if f.endswith((".tla", ".cfg")):
            shutil.copy(os.path.join(SPEC, f), wd)
    for name, content in (overlay or {}).items():   # generated modules (e.g. recorded traces as literals)
        with open(os.path.join(wd, name), "w") as f:
            f.write(content)
    cfg = cfg or module + ".cfg"
    workers = workers or NPROC
    cmd = ["java", "-XX:+UseParallelGC", "-Xmx8g"]
    if dfs:
        cmd.append("-Dtlc2.tool.queue.IStateQueue=StateDeque")
    cmd += ["-cp", "/opt/veriftools/tla/tla2tools.jar:/opt/veriftools/tla/CommunityModules-deps.jar",
            "tlc2.TLC", "-workers", str(workers), "-metadir", os.path.join(wd, "meta"),
            "-noGenerateSpecTE", "-config", cfg]
    if simulate:
        simdir = os.path.join(wd, "sim")
        shutil.rmtree(simdir, ignore_errors=True)
        os.makedirs(simdir)
        cmd += ["-simulate", "file=%s/tr,num=%d" % (simdir, simulate)]
        if depth:
            cmd += ["-depth", str(depth)]
    if seed is not None:
        cmd += ["-seed", str(seed)]
    if coverage:
        cmd += ["-coverage", "1"]
    if cont:
        cmd.append("-continue")
    cmd += list(extra)
    cmd.append(module + ".tla")
    e = dict(os.environ)
    e.update({k: str(v) for k, v in (env or {}).items()})
    res = TlcResult()
    res.cmd = " ".join(cmd[cmd.index("tlc2.TLC"):])
    res.log = os.path.join(wd, module + ".out")
    t0 = time.time()
    with open(res.log, "w") as out:
        try:
            p = subprocess.run(cmd, cwd=wd, env=e, stdout=out, stderr=subprocess.STDOUT, timeout=timeout)
            rc = p.returncode
        except subprocess.TimeoutExpired:
            rc = -9
            res.errors.append("TLC timeout after %ss" % timeout)
    res.wall = time.time() - t0
    cur_trace = None
    with open(res.log, errors="replace") as f:
        for line in f:
            line = line.rstrip("\n")
            if line.startswith('"@@'):
                try:
                    s = json.loads(line)
                    tag, _, body = s.partition(" ")
                    res.exports.setdefault(tag[2:], []).append(json.loads(body))
                except Exception as ex:  # a broken export line is a machinery failure
                    res.errors.append("bad export line: %r (%s)" % (line[:120], ex))
                continue
            m = _RE_STATES.match(line)
            if m:
                res.generated, res.distinct = int(m.group(1)), int(m.group(2))
                continue
            m = _RE_DEPTH.match(line)
            if m:
                res.depth = int(m.group(1))
                continue
            m = _RE_INV.match(line) or _RE_PROP.match(line)
            if m:
                res.violated.append(m.group(1).rstrip("."))
                cur_trace = [line]
                res.traces.append(cur_trace)
                continue
            if line.startswith("Error:"):
                if "The behavior up to this point is" in line or "The following behavior constitutes" in line:
                    continue
                res.errors.append(line)
                continue
            if "Model checking completed" in line or line.startswith("Finished in") or \
                    "Simulation complete" in line or "simulation" in line.lower() and "generated" in line:
                res.completed = True
            m = _RE_COVER.match(line)
            if m:
                res.coverage[m.group(1)] = (int(m.group(7)), int(m.group(8)))
            if cur_trace is not None and (line.startswith("State ") or line.startswith("/\\") or line.startswith("  ")):
                cur_trace.append(line)
    if simulate and rc in (0,) and not res.completed:
        res.completed = True
    if rc not in (0, 12, 13) and not res.violated and not res.errors:
        res.errors.append("TLC exit code %s (see %s)" % (rc, res.log))
    res.traces = ["\n".join(t) for t in res.traces]
    if simulate:
        import tlaval
        res.behaviours = []
        for fn in sorted(os.listdir(simdir)):
            sts = tlaval.parse_sim_file(os.path.join(simdir, fn), only={"ev"})
            res.behaviours.append([st["ev"] for st in sts if "ev" in st])
        m = re.search(r"The number of states generated: (\d+)", open(res.log, errors="replace").read())
        if m:
            res.generated = int(m.group(1))
            res.distinct = sum(len(b) for b in res.behaviours)
        shutil.rmtree(simdir, ignore_errors=True)
    return res


def require_ok(res, what):
    """The intended-design model must satisfy its invariants; anything else is a spec or
    machinery bug, not a verdict about the implementation."""
    if not res.ok:
        raise MachineryError("%s: TLC did not pass: violated=%s errors=%s log=%s" % (
            what, res.violated, res.errors[:3], res.log))


def require_violation(res, inv, what):
    """Non-vacuity: the mechanism model must violate the named invariant."""
    if inv not in res.violated:
        raise MachineryError("%s: expected TLC to report %s (non-vacuity), got violated=%s errors=%s" % (
            what, inv, res.violated, res.errors[:3]))


# --------------------------------------------------------------------------- fork-trie replay

class Trie:
    __slots__ = ("ev", "kids")

    def __init__(self, ev=None):
        self.ev = ev
        self.kids = {}

    def add(self, hist):
        node = self
        for ev in hist:
            k = json.dumps(ev, sort_keys=True)
            nxt = node.kids.get(k)
            if nxt is None:
                nxt = node.kids[k] = Trie(ev)
            node = nxt

    def to_list(self):
        """[segment, [subtrees]] where segment is the list of events of a non-branching chain"""
        out = [[self.ev] if self.ev is not None else [], []]
        stack = [(self, out)]
        while stack:
            node, lst = stack.pop()
            # absorb a non-branching chain into the segment
            while len(node.kids) == 1 and lst[0]:
                (node,) = node.kids.values()
                lst[0].append(node.ev)
            for kid in node.kids.values():
                sub = [[kid.ev], []]
                lst[1].append(sub)
                stack.append((kid, sub))
        return out


def _count(tree):
    n, stack = 0, [tree]
    while stack:
        t = stack.pop()
        n += len(t[0])
        stack.extend(t[1])
    return n


def replay_histories(histories, driver, split_depth=2, procs=None, label=None):
    """Execute every history on the real library: one real execution per edge of the prefix
    tree of the histories, each in a process whose state is exactly the prefix before it.
    The work is done by harness/replay_worker.py in a fresh interpreter; `driver` must carry
    SPEC ("module:Class") and `kwargs` so that it can be re-created there."""
    procs = procs or NPROC
    root = Trie()
    for h in histories:
        root.add(h)
    tree = root.to_list()
    wd = workdir("replay_" + (label or driver.SPEC.replace(":", "_")))
    tasks_file = os.path.join(wd, "tasks.jsonl")
    ntasks = 0
    edges = 0
    with open(tasks_file, "w") as f:
        # tasks: subtrees hanging at depth `split_depth`; shallower edges are tasks with the deeper part cut off
        stack = [([], sub, 1) for sub in tree[1]]
        while stack:
            prefix, node, d = stack.pop()
            seg, kids = node
            if d + len(seg) - 1 >= split_depth or not kids:
                f.write(json.dumps({"prefix": prefix, "tree": node}) + "\n")
                ntasks += 1
                edges += _count(node)
            else:
                f.write(json.dumps({"prefix": prefix, "tree": [seg, []]}) + "\n")
                ntasks += 1
                edges += len(seg)
                for k in kids:
                    stack.append((prefix + seg, k, d + len(seg)))
    out_file = os.path.join(wd, "out.json")
    env = dict(os.environ)
    env["PYTHONDONTWRITEBYTECODE"] = "1"
    kwf = os.path.join(wd, "kwargs.json")
    with open(kwf, "w") as f:
        json.dump(driver.kwargs, f)
    cmd = [PY] + list(getattr(driver, "pyflags", [])) + [os.path.join(VERIF, "harness", "replay_worker.py"), driver.SPEC, "@" + kwf,
           tasks_file, out_file, str(procs)]
    p = subprocess.run(cmd, cwd=VERIF, env=env, stdout=subprocess.PIPE, stderr=subprocess.STDOUT, text=True)
    if p.returncode != 0 or not os.path.exists(out_file):
        raise MachineryError("replay worker failed (rc=%s):\n%s" % (p.returncode, p.stdout[-3000:]))
    acc = json.load(open(out_file))
    for m in acc["mm"]:
        # enough to re-execute this history alone (./check <id> --replay <file>)
        m["driver"] = {"spec": driver.SPEC, "kwargs": driver.kwargs}
    acc["edges"] = edges
    if acc["n"] != edges:
        raise MachineryError("replay executed %d of %d edges" % (acc["n"], edges))
    os.remove(tasks_file)
    return acc


def _read_all(fd):
    chunks = []
    while True:
        b = os.read(fd, 1 << 16)
        if not b:
            break
        chunks.append(b)
    return b"".join(chunks)


def _write_all(fd, data):
    mv = memoryview(data)
    while mv:
        n = os.write(fd, mv)
        mv = mv[n:]


def run_isolated(fn, *args):
    """Run fn(*args) in a forked child, return its JSON-serialisable result."""
    r, w = os.pipe()
    pid = os.fork()
    if pid == 0:
        os.close(r)
        try:
            out = {"ok": fn(*args)}
        except BaseException:
            out = {"err": traceback.format_exc()}
        try:
            _write_all(w, json.dumps(out).encode())
        finally:
            os._exit(0)
    os.close(w)
    data = _read_all(r)
    os.close(r)
    os.waitpid(pid, 0)
    if not data:
        raise MachineryError("isolated child died")
    out = json.loads(data)
    if "err" in out:
        raise MachineryError("isolated child failed:\n" + out["err"])
    return out["ok"]


def parallel_isolated(fn, items, procs=None):
    """Map fn over items, each call in its own forked child of the current process."""
    procs = procs or NPROC
    import select
    results = [None] * len(items)
    pending = list(enumerate(items))
    running = {}
    while pending or running:
        while pending and len(running) < procs:
            i, it = pending.pop()
            r, w = os.pipe()
            pid = os.fork()
            if pid == 0:
                os.close(r)
                try:
                    out = {"ok": fn(it)}
                except BaseException:
                    out = {"err": traceback.format_exc()}
                try:
                    _write_all(w, json.dumps(out).encode())
                finally:
                    os._exit(0)
            os.close(w)
            running[pid] = (r, i)
        fds = [r for r, _ in running.values()]
        ready, _, _ = select.select(fds, [], [], 5.0)
        for fd in ready:
            pid = [p for p, (f, _) in running.items() if f == fd][0]
            _, i = running.pop(pid)
            data = _read_all(fd)
            os.close(fd)
            os.waitpid(pid, 0)
            if not data:
                raise MachineryError("parallel child died on item %d" % i)
            out = json.loads(data)
            if "err" in out:
                raise MachineryError("parallel child failed:\n" + out["err"])
            results[i] = out["ok"]
    return results


# --------------------------------------------------------------------------- findings

FINDINGS_FILE = os.path.join(VERIF, "known_findings.txt")


def load_findings(prop):
    """Lines:  finding: property=C04 key=<exact key>  :: free text
               finding: property=C07 key~=<regex>     :: free text
               fixed: property=C03 <commit> <what failed>       (suppresses nothing)"""
    out = []
    if not os.path.exists(FINDINGS_FILE):
        return out
    for line in open(FINDINGS_FILE, encoding="utf-8"):
        line = line.strip()
        if not line.startswith("finding:"):
            continue
        body, _, text = line[len("finding:"):].partition("::")
        m = re.match(r"\s*property=(\S+)\s+key(~?)=(.*?)\s*$", body)
        if not m or m.group(1) != prop:
            continue
        out.append({"regex": bool(m.group(2)), "key": m.group(3), "text": text.strip()})
    return out


def match_finding(findings, key):
    for f in findings:
        if f["regex"]:
            if re.fullmatch(f["key"], key):
                return f
        elif f["key"] == key:
            return f
    return None


# --------------------------------------------------------------------------- verdict + evidence

class Verdict:
    def __init__(self, prop, tier, seed, level="model_checking"):
        self.prop = prop
        self.tier = tier
        self.seed = seed
        self.level = level
        self.t0 = time.time()
        self.states = 0
        self.transitions = 0
        self.impl = 0                # real executions compared
        self.evaluations = 0
        self.nontrivial = 0
        self.rule = ""
        self.samples = []
        self.exhaustive = None
        self.cmds = []
        self.assumptions = []
        self.extra = {}
        self.violations = []         # dicts with key/detail/path
        self.notes = []

    def add_tlc(self, res, label):
        self.states += res.distinct
        self.transitions += res.generated
        self.cmds.append("%s: %s" % (label, res.cmd))
        self.extra.setdefault("tlc_runs", []).append({
            "label": label, "generated": res.generated, "distinct": res.distinct, "depth": res.depth,
            "wall_s": round(res.wall, 2), "violated": res.violated})

    def add_violations(self, mms):
        for m in mms:
            if m.get("prop") == "MACHINERY":
                raise MachineryError("harness failure during replay: %s\n%s" % (m.get("key"), m.get("detail")))
            if m.get("prop") == self.prop:
                self.violations.append(m)
            elif m.get("prop") == "DRIFT":
                self.notes.append(m)

    def finish(self):
        findings = load_findings(self.prop)
        known_seen = {}
        unknown = {}
        for v in self.violations:
            f = match_finding(findings, v["key"])
            if f:
                known_seen.setdefault(f["key"], (f, v))
            else:
                unknown.setdefault(v["key"], v)
        for k, (f, v) in sorted(known_seen.items()):
            print("KNOWN-FINDING: property=%s %s :: %s" % (self.prop, f["key"], f["text"]))
        rc = 0
        replays = []
        for k, v in sorted(unknown.items()):
            d = os.path.join(VERIF, "replays", self.prop)
            os.makedirs(d, exist_ok=True)
            h = hashlib.sha1(k.encode()).hexdigest()[:12]
            path = os.path.join(d, h + ".json")
            with open(path, "w") as f:
                json.dump({"property": self.prop, "key": k, "detail": v.get("detail"),
                           "history": v.get("path"), "driver": v.get("driver"), "tier": self.tier, "seed": self.seed}, f, indent=1, default=str)
            print("VIOLATION property=%s replay=%s" % (self.prop, path))
            print("  key: %s" % k)
            print("  detail: %s" % str(v.get("detail"))[:600])
            replays.append(path)
            rc = 1
        for n in self.notes[:5]:
            print("MODEL-DRIFT: %s %s" % (n.get("key"), str(n.get("detail"))[:200]), file=sys.stderr)
        cov = {
            "states": int(self.states), "transitions": int(self.transitions),
            "traces_validated_against_impl": int(self.impl),
            "evaluations": int(max(self.evaluations, 1)),
            "distinct_nontrivial": int(self.nontrivial),
            "rule": self.rule, "samples": self.samples[:6] or ["(none)"],
            "checker_cmd": " ; ".join(self.cmds),
            "known_findings_observed": sorted(known_seen),
            "unlisted_violation_keys": sorted(unknown)[:50],
        }
        if self.exhaustive is not None:
            cov["exhaustive"] = bool(self.exhaustive)
        cov.update(self.extra)
        ev = {"property_id": self.prop, "tier": self.tier, "seed": int(self.seed), "level": self.level,
              "coverage": cov, "assumptions": self.assumptions, "wall_s": round(time.time() - self.t0, 2),
              "violations": len(unknown)}
        os.makedirs(os.path.join(VERIF, "evidence"), exist_ok=True)
        with open(os.path.join(VERIF, "evidence", self.prop + ".json"), "w") as f:
            json.dump(ev, f, indent=1, default=str)
        print("%s %s: %s; states=%d transitions=%d impl_executions=%d nontrivial=%d known=%d wall=%.1fs" % (
            self.prop, self.tier, "VIOLATED" if rc else "held", self.states, self.transitions, self.impl,
            self.nontrivial, len(known_seen), time.time() - self.t0))
        return rc
