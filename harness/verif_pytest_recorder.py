"""pytest plugin (loaded from outside the repository with -p verif_pytest_recorder, only under MEASURED_VERIF=1):
records how the unit intern table evolves while the repository's own tests run.

One ndjson line per test that changed the table, written at the test's teardown:
  {"i": n, "test": nodeid, "new": [[oid, [pbase, pexp], [[base name, exp], ...], [dim exponents]], ...],
   "changed": [[oid, old dim, new dim], ...], "replaced": k}
plus a first line with the base units' dimensions and the table at session start, so that TLC can recompute
every product of factor dimensions itself."""
import json
import os

assert os.environ.get("MEASURED_VERIF") == "1"
_out = None
_seen = {}      # id(unit) -> (unit, stored dimension tuple)
_keys = {}      # table key -> id(unit)
_n = [0]


def _name(u):
    return u.names[0] if u.names else "anon%x" % id(u)


def _entry(u):
    p = u.prefix
    return [id(u) % 1000000007, [p.base, repr(p.exponent)], sorted([_name(f), e] for f, e in u.factors.items()), list(u.dimension.exponents)]


def _scan(test):
    from measured import Unit
    new, changed, replaced = [], [], 0
    table = Unit._known
    for key, u in list(table.items()):
        i = id(u)
        if i not in _seen:
            _seen[i] = (u, tuple(u.dimension.exponents))
            new.append(_entry(u))
        elif tuple(u.dimension.exponents)[:len(_seen[i][1])] != _seen[i][1] and any(tuple(u.dimension.exponents)[len(_seen[i][1]):]) is False:
            pass
        elif _seen[i][1] != tuple(u.dimension.exponents)[:len(_seen[i][1])]:
            changed.append([i % 1000000007, list(_seen[i][1]), list(u.dimension.exponents)])
            _seen[i] = (u, tuple(u.dimension.exponents))
        k = _keys.get(key)
        if k is not None and k != i:
            replaced += 1
        _keys[key] = i
    if new or changed or replaced:
        _n[0] += 1
        _out.write(json.dumps({"i": _n[0], "test": test, "new": new, "changed": changed, "replaced": replaced}) + "\n")


def pytest_sessionstart(session):
    global _out
    _out = open(os.environ["VERIF_TRACE_OUT"], "w")


def pytest_collection_finish(session):
    import measured  # noqa: F401
    from measured import Unit
    bases = {}
    for u in Unit._known.values():
        for f in u.factors:
            bases[_name(f)] = list(f.dimension.exponents)
    _out.write(json.dumps({"i": 0, "bases": bases}) + "\n")
    _scan("<collection>")


def pytest_runtest_teardown(item, nextitem):
    _scan(item.nodeid)


def pytest_sessionfinish(session, exitstatus):
    from measured import Unit
    bases = {}
    for u in Unit._known.values():
        for f in u.factors:
            bases[_name(f)] = list(f.dimension.exponents)
    _out.write(json.dumps({"i": -1, "bases": bases, "entries": len(Unit._known)}) + "\n")
    _out.close()
