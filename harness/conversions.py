"""Conversions machine: C04 C05 C07 C08 (spec/Conversions.tla and its MC_ wrappers)."""
import json
import os
import random
from fractions import Fraction

from core import (MachineryError, Verdict, replay_histories, require_ok, require_violation, run_tlc,
                  workdir)

LETTERS = "abcdefghijklmnopqrstuvwxyz"


def pv_value(pv):
    return Fraction(2) ** pv[0] * Fraction(3) ** pv[1] * Fraction(5) ** pv[2]


def as_number(fr):
    """a literal the way a module author would write it: int when integral, else float"""
    return int(fr) if fr.denominator == 1 else float(fr)


def close(x, y, rel):
    x, y = float(x), float(y)
    if x == y:
        return True
    return abs(x - y) <= rel * max(abs(x), abs(y))


class NodesDriver:
    """History replay for MC_ConvNodes: single units of one dimension, declarations in any order."""
    SPEC = "conversions:NodesDriver"

    def __init__(self, nodes=3, cands=None, props=("C04", "C07", "C08"), latedefs=False):
        self.kwargs = {"nodes": nodes, "cands": cands, "props": list(props), "latedefs": latedefs}
        self.nodes = nodes
        self.cands = cands
        self.props = set(props)

    def prepare(self):
        import alpha
        self.m = alpha.measured
        from measured import Length, conversions
        self.conv = conversions
        self.unit = {}
        self.Length = Length
        for i in range(self.nodes):
            tok = "n%d" % (i + 1)
            if self.kwargs.get("latedefs") and i == self.nodes - 1:
                continue    # comes into existence at its "define" event
            self.unit[tok] = Length.unit("vnode" + LETTERS[i], "vn" + LETTERS[i])

    def fresh_ctx(self):
        return {"asked": {}, "late": {}}

    def _u(self, rec, ctx=None):
        m = self.m
        u = m.One
        for tok, e in sorted(rec["f"].items()):
            if e:
                base = self.unit.get(tok) or (ctx or {}).get("late", {}).get(tok)
                u = u * base ** e
        if rec["p"]:
            u = m.Prefix(10, rec["p"]) * u
        return u

    def apply(self, ev, ctx, stats):
        m = self.m
        mm = []
        op = ev["op"]
        stats["op:" + op] = stats.get("op:" + op, 0) + 1
        if op == "define":
            tok = next(k for k, e in ev["u"]["f"].items() if e)
            i = int(tok[1:]) - 1
            ctx["late"][tok] = self.Length.unit("vnode" + LETTERS[i], "vn" + LETTERS[i])
            ctx["asked"] = {k: v + ["D"] for k, v in ctx["asked"].items()}
            return mm
        _u0 = self._u
        self._u = lambda rec: _u0(rec, ctx)
        try:
            return self._apply(ev, ctx, stats)
        finally:
            self._u = _u0

    def _apply(self, ev, ctx, stats):
        m = self.m
        mm = []
        op = ev["op"]
        if op == "declare":
            lhs = self._u(ev["u"])     # carries the declaration's left prefix, if any
            rhs = self._u(ev["v"])
            lhs.equals(as_number(pv_value(ev["pv"])) * rhs)
            ctx["asked"] = {k: v + ["D"] for k, v in ctx["asked"].items()}
            return mm
        a, b = self._u(ev["u"]), self._u(ev["v"])
        key = "%s>%s" % (sorted(k for k, e in ev["u"]["f"].items() if e), sorted(k for k, e in ev["v"]["f"].items() if e))
        prior = ctx["asked"].get((op, key))
        ratio = pv_value(ev["pv"])
        if op == "query":
            out, val, unit_ok = self._convert(1 * a, b)
            out2, val2, _ = self._convert(1 * a, b)
            if (out, val) != (out2, val2):
                mm.append(self._mm("C08", "query:repeat-differs", "%s -> %s gave %s then %s" % (a, b, (out, val), (out2, val2))))
            if out not in ("ok", "CNF"):
                mm.append(self._mm("C07", "query:escaped:%s" % out, "%s -> %s raised %s" % (a, b, out)))
            elif out != ev["out"]:
                hist = "after-" + "".join(prior) if prior else "first"
                if out == "CNF" and prior and "D" in prior:
                    stats["stale"] = stats.get("stale", 0) + 1
                mm.append(self._mm("C08", "query:outcome exp=%s got=%s %s" % (ev["out"], out, self._shape(prior)),
                                   "%s -> %s: declarations say %s, code says %s (%s)" % (a, b, ev["out"], out, hist)))
            elif out == "ok":
                if not unit_ok:
                    mm.append(self._mm("C04", "query:unit", "%s -> %s returned another unit" % (a, b)))
                if not close(val, ratio, 1e-12):
                    mm.append(self._mm("C04", "query:value", "%s -> %s gave %r, declarations give %s" % (a, b, val, float(ratio))))
                    if prior and "D" in prior:
                        # the same pair was asked before and an equivalence was declared since: the answer is not a
                        # function of the equivalences in force
                        mm.append(self._mm("C08", "query:value-not-from-the-equivalences-in-force %s" % self._shape(prior),
                                           "%s -> %s gave %r, the equivalences in force give %s" % (a, b, val, float(ratio))))
            if prior and "D" in prior and ev["out"] == "ok":
                stats["nontrivial"] = stats.get("nontrivial", 0) + 1
            if out == "ok" and "C05" in self.props:
                # relations among the code's OWN results in this history: there and back, and via every other unit
                o2, back, _ = self._convert(val * b, a)
                if o2 == "ok" and not close(back, 1, 1e-12):
                    mm.append(self._mm("C05", "node:roundtrip %s" % self._shape(prior), "1 %s -> %s -> %s gave %r" % (a, b, a, back)))
                for tok, c in sorted(list(self.unit.items()) + list(ctx.get("late", {}).items())):
                    if c is a or c is b:
                        continue
                    o3, mid, _ = self._convert(1 * a, c)
                    if o3 != "ok":
                        continue
                    o4, end, _ = self._convert(mid * c, b)
                    if o4 == "ok" and not close(end, val, 1e-12):
                        mm.append(self._mm("C05", "node:via %s" % self._shape(prior), "1 %s -> %s is %r directly and %r via %s" % (a, b, val, end, c)))
            ctx["asked"].setdefault((op, key), []).append("Q")
        elif op == "compare":
            # 1 a  versus  ratio b : equal iff convertible
            rhs = as_number(ratio) * b
            outs = []
            for f in (lambda: (1 * a) == rhs, lambda: rhs == (1 * a), lambda: (1 * a) != rhs,
                      lambda: (1 * a) < rhs, lambda: (1 * a) <= rhs):
                try:
                    outs.append(bool(f()))
                except TypeError:
                    outs.append("TypeError")
                except Exception as ex:
                    outs.append("OTHER:" + type(ex).__name__)
            bad = [o for o in outs if isinstance(o, str) and o.startswith("OTHER")]
            if bad:
                mm.append(self._mm("C07", "compare:escaped:%s" % bad[0], "%s vs %s raised %s" % (a, b, bad[0])))
            else:
                want = [True, True, False, False, True] if ev["out"] == "ok" else [False, False, True, "TypeError", "TypeError"]
                if ev["out"] == "ok" and not isinstance(as_number(ratio), int):
                    want = outs[:]  # rounding ties are outside the property; only the class is judged
                    if any(o == "TypeError" for o in outs):
                        want = [True, True, False, False, True]
                if outs != want:
                    mm.append(self._mm("C08", "compare:outcome exp=%s %s" % (ev["out"], self._shape(prior)),
                                       "%s vs %s: ==,==r,!=,<,<= gave %s, declarations (%s) require %s" % (a, b, outs, ev["out"], want)))
                    if ev["out"] == "ok":
                        # physically equal quantities of convertible units: ==, != and the order must say so
                        mm.append(self._mm("C12", "node:equal-values-compare-unequal %s" % self._shape(prior),
                                           "1 %s vs %s %s (equal by the equivalences in force): ==,==r,!=,<,<= gave %s" % (a, as_number(ratio), b, outs)))
            ctx["asked"].setdefault((op, key), []).append("Q")
        return [x for x in mm if x["prop"] in self.props]

    def _shape(self, prior):
        if not prior:
            return "first-ask"
        return "asked-before" + ("-then-declared" if "D" in prior else "")

    def _convert(self, q, unit):
        try:
            r = q.in_unit(unit)
            return "ok", r.magnitude, r.unit is unit
        except self.conv.ConversionNotFound:
            return "CNF", None, True
        except Exception as ex:
            return "OTHER:" + type(ex).__name__, None, True

    def _mm(self, prop, key, detail):
        return {"prop": prop, "key": key, "detail": detail}


def tlc_nodes(label, nodes, maxdecl, maxq, cfg="MC_ConvNodes.cfg", timeout=3000, latedefs=0, redecl=0, chain=0):
    return run_tlc("MC_ConvNodes", cfg=cfg, wd=workdir("tlc_conv_" + label),
                   env={"VERIF_NODES": nodes, "VERIF_MAXDECL": maxdecl, "VERIF_MAXQ": maxq, "VERIF_LATEDEFS": latedefs, "VERIF_REDECL": redecl,
                        "VERIF_CHAIN": chain},
                   workers=4 if nodes == 3 else None, timeout=timeout)


def node_histories_for(v, prop, tier, seed):
    """the interleavings of declarations (incl. a corrected re-declaration of one pair), conversions and comparisons over
    single units, replayed for the clauses of `prop` (C05: there-and-back / via relations among the code's own results
    within each history; C12: physically equal quantities compare equal whatever was asked before)"""
    red = tlc_nodes("nodes_redecl_" + prop, 3, 3, 2, redecl=1)
    require_ok(red, "MC_ConvNodes[re-declarations]")
    v.add_tlc(red, "MC_ConvNodes nodes=3 maxdecl=3 maxq=2 with a corrected re-declaration of one pair")
    rh = red.exports.get("H", [])
    plain = tlc_nodes("nodes_plain_" + prop, 3, 3, 2)
    require_ok(plain, "MC_ConvNodes")
    v.add_tlc(plain, "MC_ConvNodes nodes=3 maxdecl=3 maxq=2")
    hs = rh + plain.exports.get("H", [])
    rep = replay_histories(hs, NodesDriver(nodes=3, props=(prop,)), split_depth=2, label="nodes_" + prop)
    v.impl += rep["n"]
    v.evaluations += rep["n"]
    v.nontrivial += rep["stats"].get("nontrivial", 0)
    v.add_violations(rep["mm"])
    v.extra["node_histories"] = {"histories": len(hs), "executed": rep["n"]}


# ------------------------------------------------------------------ C08 while a declaration is being made

_RACE = None


def _race_schedule(plan):
    """in a forked child of the prepared parent: thread 0 declares ell = 2 palm, thread 1 asks ell -> palm; whatever
    the interleaving, once both calls have returned the conversion answers from the equivalences in force"""
    m, conv, ell, palm, span = _RACE
    from sched import LineScheduler
    sch = LineScheduler(os.path.dirname(m.__file__))

    def ask(a, b):
        try:
            return repr((1 * a).in_unit(b).magnitude)
        except conv.ConversionNotFound:
            return "CNF"
        except Exception as ex:
            return "OTHER:" + type(ex).__name__
    res = sch.run([lambda: ell.equals(2 * palm), lambda: ask(ell, palm)], plan)
    during = next((e[2] for e in res.events if e[0] == "ret" and e[1] == 1), None)
    decl = next((e[2] for e in res.events if e[0] == "ret" and e[1] == 0), None)
    after = [ask(ell, palm), ask(palm, ell), ask(span, palm)]        # span = 3 ell was declared beforehand
    return {"during": during[1] if during and during[0] == "ok" else "EXC", "declared": bool(decl and decl[0] == "ok"),
            "after": after, "steps": {str(k): v2 for k, v2 in res.steps.items()}, "blocked": res.blocked}


def _race_explore(args):
    global _RACE
    tier, seed = args
    import alpha
    m = alpha.measured
    from measured import Length, conversions
    from core import parallel_isolated
    ell, palm, span = Length.unit("vraceell", "vrl"), Length.unit("vracepalm", "vrp"), Length.unit("vracespan", "vrs")
    span.equals(3 * ell)
    _RACE = (m, conversions, ell, palm, span)
    base = parallel_isolated(_race_schedule, [[]], procs=1)[0]
    na, nb = base["steps"].get("0", 1), base["steps"].get("1", 1)
    plans = [[(0, i), (1, 10 ** 6)] for i in range(0, na + 1)]
    plans += [[(1, j), (0, 10 ** 6)] for j in range(0, nb + 1)]
    rng = random.Random(seed)
    two = [[(0, i), (1, j), (0, 10 ** 6)] for i in range(0, na + 1) for j in range(1, nb + 1)]
    plans += two if tier != "quick" else rng.sample(two, min(len(two), 120))
    return [dict(r, plan=p) for p, r in zip(plans, parallel_isolated(_race_schedule, plans))]


def declaration_races(v, tier, seed):
    from core import run_isolated
    runs = run_isolated(_race_explore, (tier, seed))
    v.impl += len(runs)
    v.evaluations += len(runs)
    bad = 0
    for r in runs:
        want = ["2.0", "0.5", "6.0"]
        if r["declared"] and r["after"] != want:
            bad += 1
            v.violations.append({"prop": "C08", "key": "race:declared-equivalence-not-in-force-afterwards:%s" % ("asked-during-the-declaration" if r["plan"] and len(r["plan"]) > 1 else "sequential"),
                                 "detail": "plan %s: ell.equals(2 palm) returned, the concurrent question answered %s; afterwards ell->palm, palm->ell, span->palm give %s (expected %s)" % (
                                     r["plan"], r["during"], r["after"], want), "path": [r["plan"]]})
    # (what the question asked DURING the declaration answers is not judged: no listed property says)
    v.extra["declaration_races"] = {"schedules": len(runs), "violating": bad, "with_a_blocked_thread": sum(1 for r in runs if r["blocked"]),
                                    "answers_during_the_declaration": {k: sum(1 for r in runs if r["during"] == k) for k in sorted({r["during"] for r in runs})}}


def run_c08(tier, seed):
    v = Verdict("C08", tier, seed)
    v.assumptions = ["single named units of one dimension (F fully prescribed by connectivity of the declarations)",
                     "synthetic exactly-consistent ratios 2^i 3^j 5^k; values compared at 1e-12 relative",
                     "all interleavings up to the stated numbers of declarations and queries"]
    nodes, maxdecl, maxq = (3, 3, 2) if tier == "quick" else (4, 3, 2)
    th = tlc_nodes("theorems", 4, 5, 0, cfg="MC_ConvTheorems.cfg")
    require_ok(th, "MC_ConvTheorems")
    v.add_tlc(th, "MC_ConvTheorems (C05/C09-style theorems of the size model)")
    res = tlc_nodes("nodes", nodes, maxdecl, maxq)
    require_ok(res, "MC_ConvNodes")
    v.add_tlc(res, "MC_ConvNodes nodes=%d maxdecl=%d maxq=%d" % (nodes, maxdecl, maxq))
    hists = res.exports.get("H", [])
    if not hists:
        raise MachineryError("no histories exported")
    rep = replay_histories(hists, NodesDriver(nodes=nodes, props=("C08",)), split_depth=2)
    v.impl += rep["n"]
    v.evaluations += rep["n"]
    v.nontrivial += rep["stats"].get("nontrivial", 0)
    v.add_violations(rep["mm"])
    v.exhaustive = True
    v.extra["replay"] = {"histories": len(hists), "executed": rep["n"], "ops": {k[3:]: n for k, n in rep["stats"].items() if k.startswith("op:")}}
    # a chain of four units, questions between units two or three links apart: the declaration that makes a failed
    # conversion possible is between two OTHER units
    ch = tlc_nodes("nodes_chain", 4, 3, 2, chain=1)
    require_ok(ch, "MC_ConvNodes[chain]")
    v.add_tlc(ch, "MC_ConvNodes chain of 4 units, questions between distant units only")
    chh = ch.exports.get("H", [])
    repc = replay_histories(chh, NodesDriver(nodes=4, props=("C08",)), split_depth=2, label="nodes_chain")
    v.impl += repc["n"]
    v.evaluations += repc["n"]
    v.nontrivial += repc["stats"].get("nontrivial", 0)
    v.add_violations(repc["mm"])
    v.extra["replay_chain"] = {"histories": len(chh), "executed": repc["n"]}
    # corrected definitions: the pair (n3, n2) is declared twice with different ratios, the later one is in force
    red = tlc_nodes("nodes_redecl", 3, 3 if tier == "quick" else 4, 2, redecl=1)
    require_ok(red, "MC_ConvNodes[re-declarations]")
    v.add_tlc(red, "MC_ConvNodes nodes=3 with a second, different declaration for one pair (the later one replaces the earlier)")
    rh = red.exports.get("H", [])
    repr_ = replay_histories(rh, NodesDriver(nodes=3, props=("C08",)), split_depth=2, label="nodes_redecl")
    v.impl += repr_["n"]
    v.evaluations += repr_["n"]
    v.nontrivial += repr_["stats"].get("nontrivial", 0)
    v.add_violations(repr_["mm"])
    v.extra["replay_redeclarations"] = {"histories": len(rh), "executed": repr_["n"]}
    # the same interleavings with one unit DEFINED during the history (definitions, declarations and queries interleaved)
    late = tlc_nodes("nodes_late", 3, 3, 2, latedefs=1)
    require_ok(late, "MC_ConvNodes[late definitions]")
    v.add_tlc(late, "MC_ConvNodes nodes=3 with the third unit defined mid-history")
    lh = late.exports.get("H", [])
    repl = replay_histories(lh, NodesDriver(nodes=3, props=("C08",), latedefs=True), split_depth=2, label="nodes_late")
    v.impl += repl["n"]
    v.evaluations += repl["n"]
    v.nontrivial += repl["stats"].get("nontrivial", 0)
    v.add_violations(repl["mm"])
    v.extra["replay_late_definitions"] = {"histories": len(lh), "executed": repl["n"]}
    # compound units: F is uninterpreted but single-valued - the outcome of a conversion in a process that
    # has answered many other conversions (warm) must equal the outcome in a fresh fork (cold)
    sh = tlc_shapes("c08pairs", maxe1=2, maxe2=1, prefixed=0 if tier == "quick" else 1)
    require_ok(sh, "MC_ConvShapes (C08 compound)")
    v.add_tlc(sh, "MC_ConvShapes (compound pairs for cold/warm single-valuedness)")
    system, cases = sh.exports["SYS"][0], sh.exports["E"]
    # the same pair is also asked with numerically equal magnitudes of the other numeric types (a subset, seeded)
    rk = random.Random(seed)
    extra = [dict(cse, mk=k) for cse in rk.sample(cases, min(len(cases), 600 if tier == "quick" else 4000)) for k in ("float", "Decimal")]
    cases = cases + extra
    drv = ShapesDriver(system=system, decl=system["decl"], props=("C08",), obs=True)
    cold = replay_histories([[c] for c in cases], drv, split_depth=1, label="c08_cold")
    oc = {o["key"]: o["detail"] for o in cold["obs"]}
    ndiff = 0
    for rnd in range(1 if tier == "quick" else 2):
        order = list(cases)
        random.Random(seed * 100 + rnd).shuffle(order)
        warm = replay_histories([order[i::12] + order[i::12][:150] for i in range(12)], drv, split_depth=1, label="c08_warm")
        v.add_violations([dict(x, prop="C08") for x in warm["mm"] if x.get("prop") == "C08"])
        v.impl += warm["n"]
        for o in warm["obs"]:
            d = oc.get(o["key"])

            def tag(x):
                if ":" in x:
                    return x.split(":", 1)[0]
                return "Decimal" if x.startswith("Decimal(") else ""

            def num(x):
                import re as _re
                mnum = _re.search(r"[-+]?(?:\d+\.?\d*|\.\d+)(?:[eE][-+]?\d+)?", x.split(":", 1)[1] if ":" in x else x)
                return float(mnum.group(0)) if mnum else float("nan")
            same = d is not None and d[0] == o["detail"][0] and (d[1] == o["detail"][1] or (
                d[1] != "None" and o["detail"][1] != "None" and tag(d[1]) == tag(o["detail"][1])
                and close(num(d[1]), num(o["detail"][1]), 1e-12)))
            if not same:
                ndiff += 1
                v.violations.append({"prop": "C08", "key": "compound:history-dependent:%s" % o["key"],
                                     "detail": "fresh process: %s; after %d other conversions: %s" % (d, len(order), o["detail"]),
                                     "path": ["warm order seed %d" % (seed * 100 + rnd), o["key"]]})
    v.impl += cold["n"]
    v.evaluations += cold["n"]
    v.extra["compound_cold_vs_warm"] = {"pairs": len(cases), "differences": ndiff}
    compound_histories(v, tier, seed)
    import defgraph
    defgraph.shipped_history_independence(v, tier, seed)
    nv = run_tlc("MC_Memo", wd=workdir("tlc_memo"), workers=2, timeout=600)
    rp = run_tlc("MC_Memo", cfg="MC_MemoRepaired.cfg", wd=workdir("tlc_memo_rep"), workers=2, timeout=600)
    require_ok(rp, "MemoShipped with InvalidateOnDeclare")
    require_violation(nv, "C08_Function", "MemoShipped (lru_cache never invalidated)")
    v.extra["nonvacuity"] = {"model": "MemoShipped", "violated": nv.violated, "states": nv.distinct}
    v.rule = ("cases = steps of every history (interleaving of declarations, conversions and comparisons) of the "
              "TLC state graph, each executed once on the real library in a process holding exactly the history "
              "before it; non-trivial = queries whose pair was asked before AND an equivalence was declared in "
              "between AND the declarations now connect the pair (the stale-memo shape)")
    random.Random(seed).shuffle(hists)
    v.samples = [[{"op": e["op"], "u": _b(e["u"]), "v": _b(e["v"]), "out": e["out"]} for e in h] for h in hists[:3]]
    declaration_races(v, tier, seed)
    import ledger
    ledger.run(v, "C08", tier, seed)        # code -> spec: recorded programs over the shipped units (epoch clauses)
    return v.finish()


def _b(rec):
    s = ".".join("%s^%d" % (k, e) for k, e in sorted(rec["f"].items()) if e)
    return ("10^%d " % rec["p"] if rec["p"] else "") + (s or "1")


# =============================================================================== shapes: C04 C05 C07

def shape_class(rec, bdim):
    """abstract a unit to the multiset of (dimension of factor, exponent): the planner's view"""
    out = []
    for tok, e in sorted(rec["f"].items()):
        if e:
            d = bdim[tok]
            out.append("%s^%d" % ("".join("%s%d" % (k, v) for k, v in sorted(d.items()) if v), e))
    return "[" + " ".join(sorted(out)) + "]"


class ShapesDriver:
    """Synthetic system S1 (exported by MC_ConvShapes): every exported pair is converted on the real
    library and judged against the size ratio TLC solved from the declarations."""
    SPEC = "conversions:ShapesDriver"

    def __init__(self, system=None, decl=None, props=("C04", "C05", "C07"), obs=False, optimized=False):
        self.kwargs = {"system": system, "decl": decl, "props": list(props), "obs": obs, "optimized": optimized}
        self.sys = system
        self.decl = decl
        self.props = set(props)
        self.obs = obs
        self.pyflags = ["-O"] if optimized else []

    def prepare(self):
        import alpha
        self.A = alpha
        self.m = m = alpha.measured
        from measured import conversions
        self.conv = conversions
        if self.kwargs["optimized"] and __debug__:
            raise MachineryError("driver asked for -O but assertions are enabled")
        self.unit = {}
        for tok in self.sys["base"]:
            dim = alpha.dim_from_vec(self.sys["bdim"][tok])
            self.unit[tok] = dim.unit("vs" + tok + "unit", "vs" + tok)
        self.named = m.Unit.derive(self.unit["gb"] * self.unit["ma"] / self.unit["sa"] ** 2, "vsnewtonlike", "vsnl")
        for i in self.decl:
            c = self.sys["cands"][i - 1]
            rhs = self._u({"p": c["p"], "f": c["r"]})
            lhs = self.unit[c["l"]] if not c["lp"] else self.m.Prefix(10, c["lp"]) * self.unit[c["l"]]
            lhs.equals(as_number(pv_value(c["pv"])) * rhs)

    def fresh_ctx(self):
        return {"answers": {}}

    def _u(self, rec):
        m = self.m
        u = m.One
        for tok, e in sorted(rec["f"].items()):
            if e:
                u = u * self.unit[tok] ** e
        if rec["p"]:
            u = m.Prefix(10, rec["p"]) * u
        return u

    def _convert(self, q, unit):
        try:
            r = q.in_unit(unit)
            return "ok", r.magnitude, r.unit is unit
        except self.conv.ConversionNotFound:
            return "CNF", None, True
        except Exception as ex:
            import traceback
            tb = traceback.extract_tb(ex.__traceback__)[-1]
            return "OTHER:%s@%s:%s" % (type(ex).__name__, tb.name, (tb.line or "").strip()[:60]), None, True

    def apply(self, ev, ctx, stats):
        w = None
        if "ev" in ev:
            ev, w = ev["ev"], ev["w"]
        if ev["op"] not in ("convert", "via"):
            return []
        mm = []
        bd = self.sys["bdim"]
        u, v = self._u(ev["u"]), self._u(ev["v"])
        mk = ev.get("mk", "int")
        if mk == "int":
            mag = 3
        elif mk == "float":
            mag = 3.0
        else:
            from decimal import Decimal
            mag = Decimal("3")
        ratio = pv_value(ev["pv"])
        shape = "%s->%s" % (shape_class(ev["u"], bd), shape_class(ev["v"], bd))
        case = "%s->%s%s" % (_b(ev["u"]), _b(ev["v"]), "" if mk == "int" else ":" + mk)
        out, val, unit_ok = self._convert(mag * u, v)
        stats["out:" + out.split("@")[0]] = stats.get("out:" + out.split("@")[0], 0) + 1
        prev = ctx["answers"].get(case)
        if prev is None:
            ctx["answers"][case] = (out, repr(val))
        elif prev != (out, repr(val)):
            stats["repeats"] = stats.get("repeats", 0) + 1
            mm.append(self._mm("C08", "compound:repeat-differs:%s" % shape, "%s answered %s, later in the same process %s" % (case, prev, (out, repr(val)))))
        else:
            stats["repeats"] = stats.get("repeats", 0) + 1
        if self.obs:
            mm.append({"prop": "OBS", "key": case, "detail": [out, repr(val) if out != "ok" or mk == "int" else "%s:%r" % (type(val).__name__, val)]})
        if out not in ("ok", "CNF"):
            mm.append(self._mm("C07", "convert:escaped:%s" % out.split(":", 1)[1], "%s raised %s" % (case, out)))
        elif ev["out"] == "CNF" and out == "ok":
            mm.append(self._mm("C07", "convert:impossible-returned-a-value:%s" % shape,
                               "%s involves a unit no declaration mentions, yet returned %r" % (case, val)))
        if ev["out"] == "CNF" and "C07" in self.props:
            stats["impossible"] = stats.get("impossible", 0) + 1
            for name, f, want in (("==", lambda: (mag * u) == (mag * v), False), ("!=", lambda: (mag * u) != (mag * v), True),
                                  ("<", lambda: (mag * u) < (mag * v), "TypeError"), (">=", lambda: (mag * u) >= (mag * v), "TypeError")):
                try:
                    r = f()
                except TypeError:
                    r = "TypeError"
                except Exception as ex:
                    r = "OTHER:" + type(ex).__name__
                if r != want:
                    mm.append(self._mm("C07", "compare:impossible:%s gave %s" % (name, r), "%s %s gave %r, must be %r" % (case, name, r, want)))
        # comparisons that would need the conversion: == False / ordering TypeError, nothing else
        if "C07" in self.props:
            for name, f in (("==", lambda: (mag * u) == (mag * v)), ("<", lambda: (mag * u) < (mag * v)),
                            ("+", lambda: (mag * u) + (mag * v)), ("-", lambda: (mag * u) - (mag * v))):
                try:
                    r = f()
                    if name in ("==", "<") and not isinstance(r, bool):
                        mm.append(self._mm("C07", "compare:%s:non-bool" % name, "%s %s gave %r" % (case, name, r)))
                except (TypeError, self.conv.ConversionNotFound):
                    pass
                except Exception as ex:
                    import traceback
                    tb = traceback.extract_tb(ex.__traceback__)[-1]
                    mm.append(self._mm("C07", "compare:%s:escaped:%s@%s:%s" % (name, type(ex).__name__, tb.name, (tb.line or "").strip()[:60]),
                                       "%s %s raised %s" % (case, name, type(ex).__name__)))
        if out == "ok" and self.decl_full():
            stats["ok"] = stats.get("ok", 0) + 1
            if not unit_ok:
                mm.append(self._mm("C04", "unit:%s" % shape, "%s returned a different unit object" % case))
            want = Fraction(mag) * ratio
            if not close(val, want, 1e-12):
                mm.append(self._mm("C04", "value:%s" % shape, "%s: %s*u gave %r, declarations give %s (ratio off by %.6g)" % (
                    case, mag, val, float(want), float(val) / float(want) if val else 0.0)))
            if "C05" in self.props:
                mm += self._c05(ev, u, v, mag, val, case, shape, w, stats)
        return [x for x in mm if x["prop"] in self.props or x["prop"] == "OBS"]

    def decl_full(self):
        return len(self.decl) == len(self.sys["cands"])

    def _c05(self, ev, u, v, mag, val, case, shape, w, stats):
        """relations between the code's OWN results (so C05 can hold where C04 has a finding)"""
        from decimal import Decimal
        mm = []
        for k in (-2, 0, 0.25, Decimal("1.5")):
            o, x, _ = self._convert((mag * u) * k, v)
            if o != "ok":
                mm.append(self._mm("C05", "linear:outcome:%s" % shape, "%s converts for %s but %s for %s times that" % (case, mag, o, k)))
            elif not close(x, float(k) * float(val), 1e-12):
                mm.append(self._mm("C05", "linear:%s" % shape, "%s: conv(%s*q)=%r but %s*conv(q)=%r" % (case, k, x, k, float(k) * float(val))))
            elif isinstance(k, Decimal) and not isinstance(x, Decimal):
                pass  # magnitude kinds are C03's subject
        o, x, _ = self._convert(mag * u, u)
        # (a Decimal magnitude on a prefixed unit goes through the float value of the prefix and comes back 2e-17 off: rounding)
        if o != "ok" or not close(x, mag, 1e-12):
            mm.append(self._mm("C05", "self:%s" % shape_class(ev["u"], self.sys["bdim"]), "%s*u in its own unit gave %s %r" % (mag, o, x)))
        o, x, _ = self._convert(val * v, u)
        if o == "ok":
            stats["roundtrip"] = stats.get("roundtrip", 0) + 1
            if not close(x, mag, 1e-12):
                mm.append(self._mm("C05", "roundtrip:%s" % shape, "%s there and back gave %r for %s" % (case, x, mag)))
        if w is not None:
            wu = self._u(w)
            o1, x1, _ = self._convert(mag * u, wu)
            if o1 == "ok":
                o2, x2, _ = self._convert(x1 * wu, v)
                if o2 == "ok":
                    stats["via"] = stats.get("via", 0) + 1
                    if not close(x2, val, 1e-12):
                        mm.append(self._mm("C05", "via:%s via %s" % (shape, shape_class(w, self.sys["bdim"])),
                                           "%s direct %r, via %s %r" % (case, val, _b(w), x2)))
        return mm

    def _mm(self, prop, key, detail):
        return {"prop": prop, "key": key, "detail": detail}


def tlc_shapes(label, cfg="MC_ConvShapes.cfg", maxe1=2, maxe2=1, maxe3=0, prefixed=0, mask=0, timeout=3000, nenum=21):
    return run_tlc("MC_ConvShapes", cfg=cfg, wd=workdir("tlc_shapes_" + label),
                   env={"VERIF_MAXE1": maxe1, "VERIF_MAXE2": maxe2, "VERIF_MAXE3": maxe3,
                        "VERIF_PREFIXED": prefixed, "VERIF_SUBSET": mask, "VERIF_NENUM": nenum}, workers=8, timeout=timeout)


def shapes_bounds(tier):
    return dict(maxe1=2, maxe2=1, prefixed=1) if tier == "quick" else dict(maxe1=3, maxe2=2, prefixed=1)


def run_shapes(prop, tier, seed):
    v = Verdict(prop, tier, seed)
    v.assumptions = ["synthetic exactly-consistent system S1 (18 base units, 18 declarations incl. redundant and prefixed ones); sizes solved inside the TLA+ spec as 2^i 3^j 5^k vectors",
                     "floats compared at 1e-12 relative on S1", "shipped-unit pairs are sampled separately (see coverage.shipped)"]
    rng = random.Random(seed)
    bounds = shapes_bounds(tier)
    if prop == "C07":
        # thorough: all 64 partially connected configurations x both interpreter modes over a 13-unit sub-universe
        bounds = dict(maxe1=2, maxe2=2, prefixed=0, nenum=11) if tier == "quick" else dict(maxe1=2, maxe2=2, prefixed=0, nenum=14)
    res = tlc_shapes("pairs", **bounds)
    require_ok(res, "MC_ConvShapes")
    v.add_tlc(res, "MC_ConvShapes %s" % bounds)
    system = res.exports["SYS"][0]
    cases = res.exports.get("E", [])
    if not cases:
        raise MachineryError("no cases exported")
    hists = [[c] for c in cases]
    if prop in ("C04", "C05"):
        # the enumeration uses int magnitudes; a seeded subset is also asked with float and Decimal magnitudes
        rk = random.Random(seed + 7)
        hists += [[dict(c, mk=k)] for c in rk.sample(cases, min(len(cases), 1500 if tier == "quick" else 12000)) for k in ("float", "Decimal")]
        if prop == "C05":
            tr = tlc_shapes("triples", cfg="MC_ConvTriples.cfg", maxe1=2, maxe2=1)
            require_ok(tr, "MC_ConvTriples")
            v.add_tlc(tr, "MC_ConvTriples")
            tcases = tr.exports.get("E", [])
            if tier == "quick":
                rng.shuffle(tcases)
                tcases = tcases[:6000]
            hists += [[c] for c in tcases]
        # cold: every case in a fresh fork of the declared system; warm: all cases in one process
        drv = ShapesDriver(system=system, decl=system["decl"], props=(prop,))
        rep = replay_histories(hists, drv, split_depth=1, label="shapes_cold")
        warm_order = [c for h in hists for c in h]
        rng.shuffle(warm_order)
        # warm chains end with a repeat of their first 150 cases (after hundreds of other plans were made)
        chunks = [warm_order[i::16] + warm_order[i::16][:150] for i in range(16)]
        repw = replay_histories(chunks, drv, split_depth=1, label="shapes_warm")
        for r in (rep, repw):
            v.impl += r["n"]
            v.evaluations += r["n"]
            v.add_violations(r["mm"])
        v.nontrivial = rep["stats"].get("ok", 0)
        v.extra["replay"] = {"cases": len(hists), "cold": rep["stats"], "warm": repw["stats"]}
        v.exhaustive = True
        if prop == "C04":
            import defgraph
            defgraph.shipped_pairs(v, tier, seed)
    else:  # C07: partially connected configurations x interpreter modes
        masks = list(range(64)) if tier == "thorough" else [33] + rng.sample(range(0, 63), 1)
        total_nontrivial = 0
        agree = 0
        for mask in masks:
            r1 = tlc_shapes("cfg%d" % mask, mask=mask, **bounds)
            require_ok(r1, "MC_ConvShapes mask=%d" % mask)
            decl = r1.exports["SYS"][0]["decl"]
            hists = [[c] for c in r1.exports["E"]]
            v.add_tlc(r1, "MC_ConvShapes mask=%d" % mask)
            obs = {}
            for opt in (False, True):
                drv = ShapesDriver(system=system, decl=decl, props=("C07",), obs=True, optimized=opt)
                rep = replay_histories(hists, drv, split_depth=1, label="shapes_c07_%s" % ("O" if opt else "dbg"))
                v.impl += rep["n"]
                v.evaluations += rep["n"]
                v.add_violations(rep["mm"])
                obs[opt] = {o["key"]: o["detail"] for o in rep.get("obs", [])}
                total_nontrivial += sum(n for k, n in rep["stats"].items() if k.startswith("out:") and k != "out:ok")
            for k, d in obs[False].items():
                d2 = obs[True].get(k)
                if d2 is None:
                    raise MachineryError("case %s missing from -O run" % k)
                if d[0].split("@")[0] in ("ok", "CNF") and d2[0].split("@")[0] in ("ok", "CNF") and d != d2:
                    v.violations.append({"prop": "C07", "key": "mode-differs:%s" % k,
                                         "detail": "mask=%d python: %s, python -O: %s" % (mask, d, d2), "path": [mask, k]})
                elif d[0].startswith("OTHER:AssertionError") and not d2[0].startswith("OTHER:AssertionError"):
                    v.violations.append({"prop": "C07", "key": "mode-differs:assert:%s" % d[0].split("@", 1)[1],
                                         "detail": "mask=%d %s python: %s, python -O: %s" % (mask, k, d, d2), "path": [mask, k]})
                else:
                    agree += 1
        v.nontrivial = total_nontrivial
        v.extra["configs"] = masks
        v.extra["mode_agreements"] = agree
    v.rule = ("cases = ordered pairs (and, for C05, triples) of equal-dimension units enumerated by TLC within the "
              "exponent/factor bounds, each executed on the real library in a fresh fork (cold caches) and again in "
              "shared processes (warm caches); non-trivial = cases where the conversion returned a value (C04/C05) "
              "or did not succeed (C07)")
    rng.shuffle(cases)
    v.samples = [{"u": _b(c["u"]), "v": _b(c["v"]), "ratio_pv": c["pv"]} for c in cases[:5]]
    if prop == "C05":
        node_histories_for(v, "C05", tier, seed)
    import ledger
    ledger.run(v, prop, tier, seed)         # code -> spec: recorded programs over the shipped units
    return v.finish()


# =============================================================================== compound histories (C08)

class HistDriver(ShapesDriver):
    """MC_ConvHist: declarations arrive DURING the history; every conversion is recorded as an
    observation keyed by (declaration sequence so far, query)."""
    SPEC = "conversions:HistDriver"

    def prepare(self):
        import alpha
        self.A = alpha
        self.m = alpha.measured
        from measured import conversions
        self.conv = conversions
        self.unit = {}
        for tok in self.sys["base"]:
            dim = alpha.dim_from_vec(self.sys["bdim"][tok])
            self.unit[tok] = dim.unit("vh" + tok + "unit", "vh" + tok)

    def fresh_ctx(self):
        return {"decl": [], "nq": 0}

    def apply(self, ev, ctx, stats):
        if ev["op"] == "declare":
            c = self.sys["cands"][ev["i"] - 1]
            lhs = self.unit[c["l"]] if not c["lp"] else self.m.Prefix(10, c["lp"]) * self.unit[c["l"]]
            lhs.equals(as_number(pv_value(c["pv"])) * self._u({"p": c["p"], "f": c["r"]}))
            ctx["decl"].append(ev["i"])
            return []
        u, v = self._u(ev["u"]), self._u(ev["v"])
        out, val, unit_ok = self._convert(3 * u, v)
        out2, val2, _ = self._convert(3 * u, v)
        mm = []
        if (out, repr(val)) != (out2, repr(val2)):
            mm.append(self._mm("C08", "compound:immediate-repeat-differs", "query %d gave %s then %s" % (ev["i"], (out, val), (out2, val2))))
        if out == "ok" and not unit_ok:
            mm.append(self._mm("C04", "unit:hist", "query %d returned another unit" % ev["i"]))
        mm.append({"prop": "OBS", "key": json.dumps([ctx["decl"], ev["i"], ctx["nq"]]), "detail": [out.split("@")[0], repr(val)]})
        ctx["nq"] += 1
        stats["out:" + out.split("@")[0]] = stats.get("out:" + out.split("@")[0], 0) + 1
        return mm


def compound_histories(v, tier, seed):
    maxdecl, maxq = (3, 2) if tier == "quick" else (4, 3)
    res = run_tlc("MC_ConvHist", wd=workdir("tlc_convhist"), env={"VERIF_MAXDECL": maxdecl, "VERIF_MAXQ": maxq},
                  workers=8, timeout=3000)
    require_ok(res, "MC_ConvHist")
    v.add_tlc(res, "MC_ConvHist maxdecl=%d maxq=%d" % (maxdecl, maxq))
    system = res.exports["SYS"][0]
    hists = res.exports["H"]
    rep = replay_histories(hists, HistDriver(system=system, decl=[], props=("C08",), obs=True), split_depth=2, label="convhist")
    v.impl += rep["n"]
    v.evaluations += rep["n"]
    v.add_violations(rep["mm"])
    ref, others = {}, []
    for o in rep["obs"]:
        declseq, q, nq = json.loads(o["key"])
        k = (tuple(declseq), q)
        if nq == 0:
            ref.setdefault(k, o["detail"])
        others.append((k, nq, o["detail"]))
    nontrivial = 0
    for k, nq, d in others:
        r = ref.get(k)
        if r is None:
            raise MachineryError("no single-query reference history for %r" % (k,))
        same = r[0] == d[0] and (r[1] == d[1] or (r[1] != "None" and d[1] != "None" and close(float(r[1]), float(d[1]), 1e-12)))
        if nq > 0:
            nontrivial += 1
        if not same:
            v.violations.append({"prop": "C08", "key": "compound:history-dependent:query%d" % k[1],
                                 "detail": "declarations %s then query %d: alone it gives %s, after %d earlier queries it gives %s" % (list(k[0]), k[1], r, nq, d),
                                 "path": [list(k[0]), k[1], nq]})
    v.nontrivial += nontrivial
    v.extra["compound_histories"] = {"histories": len(hists), "observations": len(others), "keys": len(ref),
                                     "outcomes": {k[4:]: n for k, n in rep["stats"].items() if k.startswith("out:")}}
