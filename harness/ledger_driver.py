"""Seeded random program over the SHIPPED units, run under harness/ops_recorder (code -> spec: the recorded history is
validated by TLC against spec/Ledger.tla).  Usage: ledger_driver.py <repo> <out.ndjson> <seed> <steps>

The program mixes, in one process: conversions between compound/prefixed/powered shipped units of one dimension,
conversions between incommensurable units, arithmetic and comparisons with int/float/Decimal magnitudes, and
declarations of NEW units made in the middle (query before the declaration, declare, query again; a chain of two new
units; one deliberately contradictory re-declaration).  Nothing is asserted here: every call is an event for TLC."""
import os
import random
import sys
from decimal import Decimal

repo, out, seed, steps = sys.argv[1], sys.argv[2], int(sys.argv[3]), int(sys.argv[4])
sys.path.insert(0, os.path.join(repo, "src"))
sys.path.insert(0, os.path.dirname(os.path.abspath(__file__)))
os.environ["MEASURED_VERIF"] = "1"
import ops_recorder  # noqa: E402

ops_recorder.install(out)
import measured  # noqa: E402
from measured import One, Quantity, Unit, conversions  # noqa: E402
from measured import si  # noqa: E402

rng = random.Random(seed)
rng2 = random.Random(seed * 7919 + 13)

# ---- pools: named units by dimension (no offset scales, no dimensionless ones)
classes = {}
seen = set()
for name, u in sorted(Unit._by_name.items()):
    if id(u) in seen:
        continue
    seen.add(id(u))
    if not any(u.dimension.exponents):
        continue
    if u in conversions._offsets and conversions._offsets[u]:
        continue
    if any(f in conversions._offsets and conversions._offsets[f] for f in u.factors):
        continue
    classes.setdefault(u.dimension, []).append(u)
dims = sorted(classes, key=lambda d: tuple(d.exponents))
big = [d for d in dims if len(classes[d]) >= 2]
prefixes = [si.Kilo, si.Milli, si.Mega, si.Micro, si.Centi, si.Hecto, si.Giga, si.Nano, si.Deci]
try:
    from measured.iec import Kibi, Mebi
    prefixes += [Kibi, Mebi]
except Exception:
    pass


def magnitude():
    k = rng.random()
    if k < 0.3:
        return rng.choice([1, 2, 3, 5, 7, 12, 100, -4, 0, 1000000])
    if k < 0.7:
        return rng.choice([1.0, 0.5, 2.5, -1.25, 1e-3, 3.75e6, 0.0, 12.125, 1e9, 7.0])
    return Decimal(rng.choice(["1", "1.5", "0.25", "-2", "1000", "0.001", "0", "12.5"]))


def atom(d):
    """a unit of dimension d: a named one, perhaps prefixed"""
    u = rng.choice(classes[d])
    if rng.random() < 0.3:
        try:
            u = rng.choice(prefixes) * u
        except Exception:
            pass
    return u


def shape():
    """a recipe [(dimension, exponent), ...] of one to three factors"""
    n = rng.choice([1, 1, 1, 2, 2, 3])
    return [(rng.choice(big), rng.choice([1, 1, 1, 2, -1, -1, -2, 3])) for _ in range(n)]


def build(recipe):
    u = One
    for d, e in recipe:
        u = u * atom(d) ** e
    return u


def guard(f):
    try:
        return f()
    except Exception:
        return None


new_units = []
counter = [0]


def fresh_name():
    counter[0] += 1
    letters = "abcdefghij"
    n = counter[0]
    s = ""
    while True:
        s = letters[n % 10] + s
        n //= 10
        if not n:
            break
    return "zork" + s


def declare_new():
    """query before the declaration, declare, query again"""
    d = rng.choice(big)
    ref = rng.choice(classes[d])
    name = fresh_name()
    u = d.unit(name, "z" + name[4:] + "q")
    guard(lambda: (magnitude() * u).in_unit(ref))
    guard(lambda: (3 * ref).in_unit(u))
    k = rng.choice([2, 3.5, 0.125, 12, 1000.0, 0.3048])
    style = rng.random()
    if style < 0.5:
        u.equals(k * ref)
    elif style < 0.8:
        u.equals(k * (rng.choice(prefixes) * ref))
    else:
        (si.Kilo * u).equals(k * ref)
    classes[d].append(u)
    new_units.append((u, ref, d))
    guard(lambda: (magnitude() * u).in_unit(ref))
    guard(lambda: (3 * ref).in_unit(u))
    guard(lambda: (2 * u ** 2).in_unit(ref ** 2))
    if rng.random() < 0.4 and new_units:
        # a second new unit defined through the first one
        name2 = fresh_name()
        w = d.unit(name2, "z" + name2[4:] + "q")
        guard(lambda: (1 * w).in_unit(ref))
        w.equals(rng.choice([4, 0.5, 60]) * u)
        classes[d].append(w)
        guard(lambda: (1 * w).in_unit(ref))
        guard(lambda: (1 * ref).in_unit(w))
        guard(lambda: (1 * w).in_unit(u))


def contradict():
    if not new_units:
        return
    u, ref, d = rng.choice(new_units)
    guard(lambda: (1 * u).in_unit(ref))
    guard(lambda: u.equals(17 * ref))
    guard(lambda: (1 * u).in_unit(ref))


def step():
    k = rng.random()
    if k < 0.40:
        r = shape()
        a, b = build(r), build(r)
        m = magnitude()
        guard(lambda: (m * a).in_unit(b))
        if rng.random() < 0.5:
            guard(lambda: (m * b).in_unit(a))
        if rng.random() < 0.3:
            c = build(r)
            guard(lambda: (m * a).in_unit(c))
            guard(lambda: (m * c).in_unit(b))
        if rng.random() < 0.3:
            guard(lambda: (m * a).in_unit(b))
    elif k < 0.48:
        a, b = build(shape()), build(shape())
        guard(lambda: (magnitude() * a).in_unit(b))
    elif k < 0.75:
        r = shape()
        x, y = magnitude() * build(r), magnitude() * build(r if rng.random() < 0.8 else shape())
        op = rng.choice(["add", "sub", "mul", "div", "pow", "root", "neg", "abs", "rdiv", "muln", "divn", "mulu", "divu"])
        if op == "add":
            guard(lambda: x + y)
        elif op == "sub":
            guard(lambda: x - y)
        elif op == "mul":
            guard(lambda: x * y)
        elif op == "div":
            guard(lambda: x / y)
        elif op == "pow":
            guard(lambda: x ** rng.choice([2, 3, -1, -2, 0, 1]))
        elif op == "root":
            guard(lambda: (x ** 2).root(2))
            guard(lambda: x.root(rng.choice([2, 3])))
        elif op == "neg":
            guard(lambda: -x)
        elif op == "abs":
            guard(lambda: abs(x))
        elif op == "rdiv":
            guard(lambda: magnitude() / x)
        elif op == "muln":
            guard(lambda: x * magnitude())
            guard(lambda: magnitude() * x)
        elif op == "divn":
            guard(lambda: x / magnitude())
        elif op == "mulu":
            guard(lambda: x * build(shape()))
        else:
            guard(lambda: x / build(shape()))
    elif k < 0.97:
        r = shape()
        x, y = magnitude() * build(r), magnitude() * build(r if rng.random() < 0.85 else shape())
        op = rng.choice(["eq", "ne", "lt", "le", "gt", "ge"])
        guard(lambda: {"eq": lambda: x == y, "ne": lambda: x != y, "lt": lambda: x < y, "le": lambda: x <= y,
                       "gt": lambda: x > y, "ge": lambda: x >= y}[op]())
        if rng2.random() < 0.5:
            # the same value in the same unit with a magnitude of another kind: equal, not less, same hash
            # (decided by a generator of its own, so that the rest of the program is what it was without this)
            m = x.magnitude
            twins = []
            if isinstance(m, int):
                twins = [float(m), Decimal(m)]
            elif m == m and abs(m) < 2 ** 52 and m == int(m):
                twins = [int(m)] + ([Decimal(int(m))] if isinstance(m, float) else [float(m)])
            elif isinstance(m, float) and m == m and abs(m) < 1e15:
                twins = [Decimal(m)]          # exact: Decimal(0.5) == 0.5
            if twins:
                z = rng2.choice(twins) * x.unit
                guard(lambda: x == z)
                guard(lambda: z < x)
    elif k < 0.995:
        declare_new()
    else:
        contradict()


for _ in range(steps):
    step()

# ---- a section of its own after the program (own generator): named DIMENSIONLESS units (radian, degree, arcminute, ...)
# as factors of compound units, with positive and negative exponents, converted among themselves
rng3 = random.Random(seed * 104729 + 7)
dimless = []
for name, u in sorted(Unit._by_name.items()):
    if u is not One and not any(u.dimension.exponents) and u not in dimless and len(u.factors) == 1 and conversions._ratios.get(u):
        dimless.append(u)
carriers = [One] + [classes[d][0] for d in dims[:6]]
for _ in range(0 if len(dimless) < 2 else max(24, steps // 40)):
    a, b = rng3.sample(dimless, 2)
    e = rng3.choice([1, -1, -1, 2, -2])
    c = rng3.choice(carriers) ** rng3.choice([1, -1])
    m = rng3.choice([1, 2.5, Decimal("1.5"), 360, 1e-3])
    guard(lambda: (m * (a ** e * c)).in_unit(b ** e * c))
    if rng3.random() < 0.3:
        guard(lambda: (m * (c * a ** e)).in_unit(c * b ** e))
ops_recorder.finish()
