"""A small reader for TLA+ values as TLC prints them (states in -simulate files and error traces).

int, "string", TRUE/FALSE, <<seq>>, {set}, [field |-> v, ...], (k :> v @@ k :> v), model values.
Records become dicts, sequences lists, sets lists (marked by class SetV), functions FnV (list of pairs).
"""
import re

_TOK = re.compile(r'\s*(<<|>>|\|->|:>|@@|[\[\]{}(),]|-?\d+|"(?:[^"\\]|\\.)*"|[A-Za-z_][A-Za-z0-9_!]*)')


class SetV(list):
    pass


class FnV(list):
    def as_dict(self, keyf=lambda k: k):
        return {keyf(k): v for k, v in self}


def tokenize(s):
    pos, out = 0, []
    n = len(s)
    while pos < n:
        m = _TOK.match(s, pos)
        if not m:
            if s[pos:].strip() == "":
                break
            raise ValueError("cannot tokenize at %r" % s[pos:pos + 40])
        out.append(m.group(1))
        pos = m.end()
    return out


def parse(s):
    toks = tokenize(s)
    v, i = _value(toks, 0)
    if i != len(toks):
        raise ValueError("trailing tokens %r" % toks[i:i + 5])
    return v


def _value(t, i):
    tok = t[i]
    if tok == "<<":
        items, i = _list(t, i + 1, ">>")
        return items, i
    if tok == "{":
        items, i = _list(t, i + 1, "}")
        return SetV(items), i
    if tok == "[":
        # record [a |-> v, ...]
        rec = {}
        i += 1
        if t[i] == "]":
            return rec, i + 1
        while True:
            name = t[i]
            assert t[i + 1] == "|->", "expected |-> after %r" % name
            v, i = _value(t, i + 2)
            rec[name] = v
            if t[i] == ",":
                i += 1
                continue
            assert t[i] == "]"
            return rec, i + 1
    if tok == "(":
        pairs = FnV()
        i += 1
        while True:
            k, i = _value(t, i)
            assert t[i] == ":>"
            v, i = _value(t, i + 1)
            pairs.append((k, v))
            if t[i] == "@@":
                i += 1
                continue
            assert t[i] == ")"
            return pairs, i + 1
    if tok[0] == '"':
        return bytes(tok[1:-1], "utf-8").decode("unicode_escape").encode("latin-1").decode("utf-8") \
            if "\\" in tok else tok[1:-1], i + 1
    if re.fullmatch(r"-?\d+", tok):
        return int(tok), i + 1
    if tok == "TRUE":
        return True, i + 1
    if tok == "FALSE":
        return False, i + 1
    return tok, i + 1  # model value


def _list(t, i, close):
    items = []
    if t[i] == close:
        return items, i + 1
    while True:
        v, i = _value(t, i)
        items.append(v)
        if t[i] == ",":
            i += 1
            continue
        assert t[i] == close, "expected %s got %s" % (close, t[i])
        return items, i + 1


_STATE = re.compile(r"^STATE_\d+ ==\s*$|^State \d+:", re.M)


def parse_state_text(text):
    """'/\\ x = v\\n/\\ y = w' -> {x: v, y: w}"""
    out = {}
    parts = re.split(r"^/\\ ", text, flags=re.M)
    for p in parts:
        p = p.strip()
        if not p:
            continue
        name, _, val = p.partition(" = ")
        out[name.strip()] = parse(val)
    return out


def parse_sim_file(path, only=None):
    """A `-simulate file=` behaviour -> list of states (dict var -> value).  `only` restricts the
    variables that are parsed (others are skipped, which is much faster)."""
    text = open(path, encoding="utf-8").read()
    chunks = re.split(r"^STATE_\d+ ==\s*$", text, flags=re.M)[1:]
    states = []
    for c in chunks:
        c = re.sub(r"^\\\*.*$", "", c, flags=re.M)
        c = re.sub(r"^=+\s*$", "", c, flags=re.M)
        if only:
            st = {}
            for p in re.split(r"^/\\ ", c, flags=re.M):
                p = p.strip()
                if not p:
                    continue
                name, _, val = p.partition(" = ")
                if name.strip() in only:
                    st[name.strip()] = parse(val)
            states.append(st)
        else:
            states.append(parse_state_text(c))
    return states
