"""C18: levels <-> quantities (spec/Levels.tla, MC_Levels)."""
import random
from decimal import Decimal, getcontext
from fractions import Fraction

from core import MachineryError, Verdict, replay_histories, require_ok, run_tlc, workdir

getcontext().prec = 50
E_DEC = Decimal(1).exp()
from decimal import Context  # noqa: E402
DEC28 = Context(prec=28)


class LevelsDriver:
    SPEC = "levels:LevelsDriver"

    def __init__(self, system=None):
        self.kwargs = {"system": system}
        self.sys = system

    def prepare(self):
        import alpha
        self.m = m = alpha.measured
        import measured.si as si
        import measured.us as us
        import measured.energy
        from measured import Bel, Neper, Octave
        logs = {"10": Bel, "e": Neper, "2": Octave, "3": m.Logarithm(3), "16": m.Logarithm(16)}
        self.log = []
        for f in self.sys["families"]:
            lg = logs[f["base"]]
            if f["pb"]:
                lg = m.Prefix(f["pb"], f["pe"]) * lg
            self.log.append(lg)
        refs = {"1 W": 1 * si.Watt, "1 mW": 1 * (si.Milli * si.Watt), "1 pW/m^2": 1 * (si.Pico * si.Watt) / si.Meter ** 2,
                "550 ft*lbf/s": 550 * us.Foot * us.PoundForce / si.Second, "440 Hz": 440 * si.Hertz, "1 V": 1 * si.Volt,
                "20 uPa": 20 * (si.Micro * si.Pascal), "1 psi": 1 * us.PSI, "0.5 kV": 0.5 * (si.Kilo * si.Volt), "1 m/s": 1 * si.Meter / si.Second,
                "1 Pa": 1 * si.Pascal, "1 hp": 1 * measured.energy.Horsepower, "1 kn": 1 * us.Knot}
        # the measured quantity may be written in another convertible unit than the reference
        other = {"1 W": si.Kilo * si.Watt, "1 mW": si.Watt, "1 pW/m^2": si.Watt / si.Meter ** 2, "550 ft*lbf/s": si.Watt, "440 Hz": si.Kilo * si.Hertz,
                 "1 V": si.Milli * si.Volt, "20 uPa": si.Pascal, "1 psi": si.Pascal, "0.5 kV": si.Volt, "1 m/s": si.Kilo * si.Meter / si.Second,
                 "1 Pa": us.PSI, "1 hp": si.Watt, "1 kn": si.Meter / si.Second}
        self.ref = [refs[r["name"]] for r in self.sys["refs"]]
        self.other = [other[r["name"]] for r in self.sys["refs"]]

    def fresh_ctx(self):
        return {}

    def _pow(self, base, e):
        b = {"10": Decimal(10), "2": Decimal(2), "e": E_DEC, "3": Decimal(3), "16": Decimal(16)}[base]
        return (b.ln() * (Decimal(e.numerator) / Decimal(e.denominator))).exp()

    def apply(self, ev, ctx, stats):
        m = self.m
        f, r = self.sys["families"][ev["f"] - 1], self.sys["refs"][ev["r"] - 1]
        lg, ref = self.log[ev["f"] - 1], self.ref[ev["r"] - 1]
        unit = lg[ref]
        L = Fraction(ev["L"][0], ev["L"][1])
        e = Fraction(ev["j"], 12)
        factor = self._pow(f["base"], e)
        tag = "%s[%s]" % (f["name"], r["name"])
        kind = "power" if r["k"] == 1 else "root-power"
        mm = []
        if unit.power_ratio != r["k"]:
            mm.append(self._mm("power-ratio:%s" % kind, "%s has power_ratio %s, the reference is a %s quantity" % (tag, unit.power_ratio, kind)))
        for where, q in (("reference-unit", float(Decimal(ref.magnitude) * factor) * ref.unit),):
            pass
        dec = ev.get("mk") == "Decimal"
        as_int = ev.get("mk") == "int"

        def num(x):
            """the magnitude in the kind this case is written in (28 significant digits for Decimal; an int when the
            case says so and the value is integral)"""
            if dec:
                return +Decimal(x).normalize(DEC28)
            if as_int and Decimal(x) == Decimal(x).to_integral_value():
                return int(Decimal(x))
            return float(x)
        q_ref = num(Decimal(repr(ref.magnitude)) * factor) * ref.unit
        if dec:
            tag += "[Decimal]"
        if as_int:
            tag += "[int]"
        try:
            q_other = q_ref.in_unit(self.other[ev["r"] - 1])
        except Exception:
            q_other = None
        for where, q in (("in-reference-unit", q_ref), ("in-another-unit", q_other)):
            if q is None:
                continue
            try:
                lv = q.level(unit)
            except Exception as ex:
                mm.append(self._mm("level:raised:%s:%s" % (type(ex).__name__, where), "%s of %s" % (tag, q)))
                continue
            stats["ok"] = stats.get("ok", 0) + 1
            if abs(float(lv.magnitude) - float(L)) > 1e-9 * abs(float(L)) + 1e-9:
                mm.append(self._mm("level:value:%s:%s:%s%s" % (kind, "prefixed-logarithm" if f["pb"] else "plain-logarithm", where, ":decimal" if dec else ":int" if as_int else ""),
                                   "%s: level of %s is %r, the definition gives %s" % (tag, q, lv.magnitude, float(L))))
            try:
                back = lv.quantify()
                if back.unit is not q_ref.unit.quantify().unit and back.unit.dimension is not q_ref.unit.dimension:
                    mm.append(self._mm("quantify:dimension", "%s: %s" % (tag, back)))
                b2 = back.in_unit(q.unit)
                if abs(float(b2.magnitude) - float(q.magnitude)) > 1e-9 * abs(float(q.magnitude)):
                    mm.append(self._mm("roundtrip:quantity-level-quantity:%s" % where, "%s: %s -> %s -> %s" % (tag, q, lv, b2)))
            except Exception as ex:
                mm.append(self._mm("quantify:raised:%s" % type(ex).__name__, "%s of %s" % (tag, lv)))
        # level -> quantity -> level, starting from the exact level
        try:
            lv0 = num(Decimal(L.numerator) / Decimal(L.denominator)) * unit
            q0 = lv0.quantify()
            want = float(Decimal(repr(ref.unprefixed().magnitude)) * factor)
            if abs(float(q0.magnitude) - want) > 1e-9 * abs(want):
                mm.append(self._mm("quantify:value:%s:%s%s" % (kind, "prefixed-logarithm" if f["pb"] else "plain-logarithm", ":decimal" if dec else ":int" if as_int else ""),
                                   "%s: %s * unit quantifies to %s, the definition gives %s %s" % (tag, float(L), q0, want, ref.unprefixed().unit)))
            l1 = q0.level(unit)
            if abs(float(l1.magnitude) - float(L)) > 1e-9 * abs(float(L)) + 1e-9:
                mm.append(self._mm("roundtrip:level-quantity-level", "%s: %s -> %s -> %s" % (tag, lv0, q0, l1)))
            # a level compares equal to the quantity it denotes (its own quantify(): within rounding by construction)
            if not (lv0 == q0) or not (q0 == lv0):
                mm.append(self._mm("level-equals-its-quantity", "%s: %s == %s is False" % (tag, lv0, q0)))
        except Exception as ex:
            mm.append(self._mm("quantify:raised:%s" % type(ex).__name__, "%s level %s" % (tag, float(L))))
        ctx.setdefault("seen", {})[(ev["f"], ev["r"], ev["j"], ev.get("mk"))] = True
        return mm

    def _mm(self, key, detail):
        return {"prop": "C18", "key": key, "detail": detail}


def run_c18(tier, seed):
    v = Verdict("C18", tier, seed)
    v.assumptions = ["the definitional structure (k, prefix direction, base, reference normalisation) is decided exactly by TLC; the exponential map base**(j/12) is computed by alpha with 50-digit decimals",
                     "11 logarithm families (bases 10, e, 2, 3, 16; with and without prefixes) x 13 references (power and root-power, prefixed / non-SI) x lattice points j/12, levels within [-200, 200]",
                     "tolerance 1e-9 relative + 1e-9 absolute on level magnitudes"]
    res = run_tlc("MC_Levels", wd=workdir("tlc_levels"), env={"VERIF_LTIER": 1 if tier == "quick" else 2}, workers=4, timeout=3000)
    require_ok(res, "MC_Levels")
    v.add_tlc(res, "MC_Levels")
    system = res.exports["SYS"][0]
    cases = res.exports.get("E", [])
    drv = LevelsDriver(system=system)
    rep = replay_histories([[c] for c in cases], drv, split_depth=1, label="levels_cold")
    order = sorted(cases, key=lambda c: (c["f"], c["r"], c["j"], c.get("mk", "")))
    chains = {}
    for c in order:
        chains.setdefault(c["f"], []).append(c)
    chains = list(chains.values())
    repw = replay_histories(chains + [list(reversed(ch)) for ch in chains], drv, split_depth=1, label="levels_warm")
    v.impl = rep["n"] + repw["n"]
    v.evaluations = v.impl
    v.nontrivial = rep["stats"].get("ok", 0)
    v.add_violations(rep["mm"])
    cold = {x["key"] for x in rep["mm"]}
    v.add_violations([dict(x, key="warm:" + x["key"]) if x["key"] not in cold else x for x in repw["mm"]])
    v.exhaustive = True
    v.extra["replay"] = {"cases": len(cases), "cold": rep["stats"], "warm": repw["stats"]}
    v.rule = ("cases = (logarithm family, reference, lattice point) enumerated by TLC with the exact rational level; each executed in a fresh fork and "
              "again in shared processes (all references and prefixes of one family in one process, in both orders); non-trivial = levels computed")
    random.Random(seed).shuffle(cases)
    v.samples = cases[:4]
    return v.finish()
