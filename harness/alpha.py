"""The abstraction function alpha: real `measured` objects -> the spec's abstract values.

Reads only public attributes and the class-level tables.  Nothing here calls library
arithmetic (which would itself create table entries); dimensions are compared as exponent
tuples.
"""
import os
import sys

REPO = os.environ.get("VERIF_REPO", "/repo")
if os.path.join(REPO, "src") not in sys.path:
    sys.path.insert(0, os.path.join(REPO, "src"))

import measured  # noqa: E402
from measured import Dimension, Prefix, Unit  # noqa: E402

FUND_IDX = {"L": 1, "T": 2, "M": 3, "TH": 4, "Q": 5, "N": 6, "J": 7, "B": 8, "I": 8}


def dimvec(dimension, fund=("L", "T", "M")):
    """Dimension -> {fund token: exponent}; None if the dimension has a component outside `fund`."""
    ex = dimension.exponents
    out = {}
    used = set()
    for f in fund:
        i = FUND_IDX[f]
        out[f] = ex[i] if i < len(ex) else 0
        used.add(i)
    for i, e in enumerate(ex):
        if e and i not in used:
            return None
    return out


def dim_from_vec(vec):
    n = len(measured.Number.exponents)
    ex = [0] * n
    for f, e in vec.items():
        ex[FUND_IDX[f]] = e
    return Dimension(tuple(ex))


def prefix_exp(prefix):
    """base-10 / identity prefix -> exponent; anything else -> ('x', base, exponent)."""
    if prefix.base == 0 or prefix.exponent == 0:
        return 0
    if prefix.base == 10 and isinstance(prefix.exponent, int):
        return prefix.exponent
    return ("x", prefix.base, prefix.exponent)


class Universe:
    """Synthetic base units b1..bn defined once in the pristine parent."""

    def __init__(self, bdims, tag="vb"):
        self.tok_of = {}
        self.unit_of = {}
        letters = "abcdefghij"
        for i, (tok, vec) in enumerate(sorted(bdims.items())):
            u = Unit.define(dim_from_vec(vec), "%sname%s" % (tag, letters[i]), "%s%s" % (tag, letters[i]))
            self.tok_of[u] = tok
            self.unit_of[tok] = u
        self.tokens = sorted(self.unit_of)

    def nf(self, unit):
        """Unit -> (p, ((token, exp), ...)) over this universe, or None if it has foreign factors."""
        bag = []
        for f, e in unit.factors.items():
            if f is measured.One:
                continue
            t = self.tok_of.get(f)
            if t is None:
                return None
            bag.append((t, e))
        return (prefix_exp(unit.prefix), tuple(sorted(bag)))

    def nf_of_spec(self, rec):
        """spec record {"p":..,"f":{tok:exp}} -> the same key shape as nf()."""
        return (rec["p"], tuple(sorted((t, e) for t, e in rec["f"].items() if e != 0)))


def expected_dim_exponents(unit):
    """Product over the unit's base-unit factors of factor.dimension ** exponent, as a tuple,
    computed from the live objects without calling library arithmetic."""
    n = len(unit.dimension.exponents)
    acc = [0] * n
    for f, e in unit.factors.items():
        fe = f.dimension.exponents
        for i in range(min(n, len(fe))):
            acc[i] += fe[i] * e
    return tuple(acc)


def dim_key(dimension):
    """exponents without trailing zeros: Dimension.define() lengthens every exponents tuple in place"""
    ex = list(dimension.exponents)
    while ex and ex[-1] == 0:
        ex.pop()
    return tuple(ex)


def is_base(unit):
    return len(unit.factors) == 1 and next(iter(unit.factors.items())) == (unit, 1)


def table_check(reported=None):
    """The C01/C02 invariants evaluated on the implementation's own table.
    Returns a list of (property, clause, description).  `reported` (a set of object ids) makes a
    bad entry count once, at the step that created it."""
    bad = _table_check()
    if reported is None:
        return [(p, c, d) for p, c, d, _ in bad]
    out = []
    for p, c, d, u in bad:
        if (id(u), c) in reported:
            continue
        reported.add((id(u), c))
        out.append((p, c, d))
    return out


def _table_check():
    bad = []
    seen_struct = {}
    seen_nf = {}
    # one Dimension object per dimension (exponents compared without trailing zeros: Dimension.define lengthens them)
    canon = {}
    for dkey, d in list(Dimension._known.items()):
        k = dim_key(d)
        if k in canon and canon[k] is not d:
            bad.append(("C02", "dimension-table:duplicate", "two Dimension objects for exponents %s (keys %s and %s)" % (k, tuple(canon[k].exponents), dkey), d))
        else:
            canon[k] = d
        if tuple(d.exponents) != tuple(dkey):
            bad.append(("C02", "dimension-table:key-mismatch", "Dimension %s stored under key %s" % (tuple(d.exponents), dkey), d))
    for key, u in list(Unit._known.items()):
        # every factor must be a base unit with a nonzero exponent (canonical normal form)
        for f, e in u.factors.items():
            if not is_base(f):
                bad.append(("C02", "table:non-base-factor", "%r has non-base factor %r" % (key_str(u), key_str(f)), u))
            if e == 0:
                bad.append(("C02", "table:zero-exponent", "%r keeps a zero exponent" % (key_str(u),), u))
            if f is measured.One and len(u.factors) > 1:
                bad.append(("C02", "table:one-factor", "%r keeps One among other factors" % (key_str(u),), u))
            if f is measured.One and e != 1:
                bad.append(("C02", "table:one-exponent", "%r carries One with exponent %d (the placeholder factor is {One: 1})" % (key_str(u), e), u))
        if not is_base(u):
            exp = expected_dim_exponents(u)
            if tuple(u.dimension.exponents) != exp:
                bad.append(("C01", "table:dimension", "%s stores dimension %s but its factors give %s" % (
                    key_str(u), tuple(u.dimension.exponents), exp), u))
        # the dimension a unit reports must be THE interned Dimension object of those exponents (canonical objects)
        if Dimension._known.get(tuple(u.dimension.exponents)) is not u.dimension or canon.get(dim_key(u.dimension)) is not u.dimension:
            bad.append(("C02", "table:dimension-object-not-canonical", "%s reports a dimension object %r that is not the interned one" % (
                key_str(u), tuple(u.dimension.exponents)), u))
        # the key under which the object is stored must be the object's own structure
        struct = (id(u.prefix), tuple(sorted((id(f), e) for f, e in u.factors.items())))
        kstruct = (id(key[0]), tuple(sorted((id(f), e) for f, e in key[1])))
        if struct != kstruct:
            bad.append(("C02", "table:key-mismatch", "%s stored under a different key" % key_str(u), u))
        if struct in seen_struct and seen_struct[struct] is not u:
            bad.append(("C02", "table:duplicate", "two objects for %s" % key_str(u), u))
        seen_struct[struct] = u
        # one object per NORMAL FORM: the placeholder One does not distinguish units
        nform = (id(u.prefix), tuple(sorted((id(f), e) for f, e in u.factors.items() if f is not measured.One)))
        if nform in seen_nf and seen_nf[nform] is not u:
            bad.append(("C02", "table:duplicate-normal-form", "two objects denote %s" % key_str(u), u))
        seen_nf.setdefault(nform, u)
    return bad


def key_str(u):
    try:
        p = u.prefix
        ps = "" if p.base == 0 else "%s^%s " % (p.base, p.exponent)
        fs = ".".join("%s^%d" % (f.symbol or f.name or "?", e) for f, e in u.factors.items())
        return ps + fs
    except Exception:
        return "<unit %x>" % id(u)
