"""Growth beyond the listed properties: spec/JsonCodec.tla bound to measured.json by replaying every transition.
Run with ./check X-jsoncodec (not part of MANIFEST.json; it writes no evidence file)."""
import json as _json
import os

from core import MachineryError, replay_histories, require_ok, require_violation, run_tlc, workdir
from registry import graph_histories


class CodecDriver:
    SPEC = "jsoncodec:CodecDriver"

    def __init__(self):
        self.kwargs = {}

    def prepare(self):
        import alpha
        self.m = alpha.measured
        import measured.json as mj
        self.mj = mj

    def fresh_ctx(self):
        return {"stack": []}

    def apply(self, ev, ctx, stats):
        import json
        mj = self.mj
        out = "ok"
        try:
            if ev["op"] == "enter":
                cm = mj.codecs_installed()
                cm.__enter__()
                ctx["stack"].append(cm)
            elif ev["op"] == "exit":
                ctx["stack"].pop().__exit__(None, None, None)
            elif ev["op"] == "install":
                mj.install()
            elif ev["op"] == "uninstall":
                mj.uninstall()
        except RuntimeError:
            out = "RuntimeError"
        except AttributeError:
            out = "AttributeError"
        except Exception as ex:
            out = "OTHER:" + type(ex).__name__
        try:
            json.dumps(self.m.One)
            works = True
        except TypeError:
            works = False
        installed = isinstance(json._default_encoder, mj.MeasuredJSONEncoder)
        mm = []
        if out != ev["out"]:
            mm.append({"prop": "X", "key": "jsoncodec:%s:outcome" % ev["op"], "detail": "spec %s, code %s" % (ev["out"], out)})
        if works != ev["works"] or installed != ev["works"]:
            mm.append({"prop": "X", "key": "jsoncodec:%s:installed" % ev["op"], "detail": "spec installed=%s, code installed=%s dumps-works=%s" % (ev["works"], installed, works)})
        stats["n"] = stats.get("n", 0) + 1
        return mm


def apalache_inductive():
    """WellNested for behaviours of ANY length: Apalache checks that IndInv (spec/MC_JsonCodecApa.tla) holds initially,
    is preserved by every action (symbolic stack up to 8 contexts deep) and implies WellNested; the documented deviation
    OpenInstallerMeansInstalled must NOT follow from it."""
    import shutil
    import subprocess
    from core import MachineryError, SPEC
    wd = workdir("apalache_jsoncodec")
    shutil.copy(os.path.join(SPEC, "JsonCodec.tla"), wd)
    shutil.copy(os.path.join(SPEC, "apalache", "MC_JsonCodecApa.tla"), wd)     # (kept out of spec/*.tla: SANY has no Apalache module)
    runs = (("Init", "IndInv", 0, True), ("IndInit", "IndInv", 1, True), ("IndInit", "WellNested", 0, True), ("IndInit", "OpenInstallerMeansInstalled", 0, False))
    for init, inv, length, want_ok in runs:
        p = subprocess.run(["apalache-mc", "check", "--init=" + init, "--inv=" + inv, "--length=%d" % length, "--out-dir=" + os.path.join(wd, "out"),
                            "MC_JsonCodecApa.tla"], cwd=wd, stdout=subprocess.PIPE, stderr=subprocess.STDOUT, text=True, timeout=900)
        ok = "EXITCODE: OK" in p.stdout
        refuted = "EXITCODE: ERROR (12)" in p.stdout
        if (want_ok and not ok) or (not want_ok and not refuted):
            raise MachineryError("apalache --init=%s --inv=%s --length=%d: expected %s\n%s" % (init, inv, length, "OK" if want_ok else "a counterexample", p.stdout[-800:]))
        print("apalache: --init=%-8s --inv=%-28s --length=%d  %s" % (init, inv, length, "holds" if ok else "refuted (as documented)"))


def run(tier, seed):
    res = run_tlc("MC_JsonCodec", wd=workdir("tlc_jsoncodec"), workers=2, timeout=600)
    require_ok(res, "MC_JsonCodec")
    exp = run_tlc("MC_JsonCodec", cfg="MC_JsonCodecExpect.cfg", wd=workdir("tlc_jsoncodec_expect"), workers=2, timeout=600)
    require_violation(exp, "OpenInstallerMeansInstalled", "JsonCodec (documented deviation)")
    apalache_inductive()
    hists, n = graph_histories(res.exports.get("T", []), res.exports.get("I", []))
    rep = replay_histories(hists, CodecDriver(), split_depth=2, label="jsoncodec")
    bad = [m for m in rep["mm"] if m.get("prop") != "OBS"]
    print("JsonCodec: %d spec states, %d transitions replayed on measured.json, %d disagreements; documented deviation found by TLC: %s" % (
        res.distinct, rep["n"], len(bad), exp.violated))
    for m in bad[:10]:
        print("  MODEL-DRIFT %s: %s" % (m["key"], m["detail"]))
    return 0 if not bad else 2
