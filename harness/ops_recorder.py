"""External recorder of public Quantity/Unit calls (installed by monkeypatching, only under MEASURED_VERIF=1).

Writes one ndjson event per OUTERMOST public call, at the call's return (also on the exception path), to be validated
by TLC against spec/Ledger.tla (MC_LedgerTrace):

  {"e":"decl", "t":[[base,exp],...], "lat":L|null, "text":...}          Unit.equals(): 1 left = k right; t = left/right bag, L = lattice(k) with prefixes folded in
  {"e":"scale", "b":[base,...]}                                          Dimension.scale()/conversions.translate(): these base units are offset scales
  {"e":"conv", "a":U, "b":U, "out":"ok"|"CNF"|"OTHER:<cls>", "obs":L|null, "zero":bool, "sign":bool, "same":bool, "mk":kind, "rk":kind}
  {"e":"arith", "op":..., "l":Q, "r":Q|{"num":kind}|{"unit":U}|null, "n":int|null, "out":"ok"|"<cls>", "res":Q|null}
  {"e":"cmp", "op":"eq"|"lt", "l":Q, "r":Q, "out":"T"|"F"|"NI"|"<cls>"}

  U = {"k": canonical key text, "pl": lattice(prefix factor), "t": [[base,exp],...], "d": [dimension exponents], "sc": has-offset-scale-base}
  Q = {"u": U, "mk": "int"|"float"|"Decimal"|"bool"|"other"}

Lattice: round(ln(x) / 1e-6) (the DefGraph lattice).  Identical events within one epoch (between two declarations)
are written once.  Can be used as a pytest plugin (-p ops_recorder, VERIF_OPS_OUT=<file>) or by calling install(path)."""
import json
import math
import os
import threading
from decimal import Decimal
from fractions import Fraction

assert os.environ.get("MEASURED_VERIF") == "1"
STEP = 1e-6
_out = None
_seen = set()
_tl = threading.local()
_count = {"raw": 0, "written": 0}
_installed = [False]


def _kind(m):
    if isinstance(m, bool):
        return "bool"
    if isinstance(m, int):
        return "int"
    if isinstance(m, float):
        return "float"
    if isinstance(m, Decimal):
        return "Decimal"
    return "other"


def _ln(x):
    """natural log of a positive int/float/Decimal/Fraction, None when it has none"""
    try:
        if isinstance(x, Decimal):
            if not x.is_finite() or x <= 0:
                return None
            return float(x.ln())
        if isinstance(x, Fraction):
            if x <= 0:
                return None
            return math.log(x.numerator) - math.log(x.denominator)
        if isinstance(x, int):
            return math.log(x) if x > 0 else None
        x = float(x)
        if x <= 0 or x != x or x in (float("inf"),):
            return None
        return math.log(x)
    except Exception:
        return None


def _lat(lnx):
    return None if lnx is None else int(round(lnx / STEP))


def _bname(b):
    return b.names[0] if getattr(b, "names", None) else "anon%x" % id(b)


_ucache = {}


def _U(u):
    d = _ucache.get(id(u))
    if d is not None and d[0] is u:
        return d[1]
    from measured import One, conversions
    p = u.prefix
    try:
        pl = 0 if (p.base == 0 or p.exponent == 0) else _lat(math.log(p.base) * float(p.exponent))
    except Exception:
        pl = None
    t = sorted([_bname(b), int(e)] for b, e in u.factors.items() if b is not One and e)
    sc = any((b in conversions._offsets and bool(conversions._offsets[b])) for b in u.factors)
    desc = {"k": "%s|%s" % (pl, ",".join("%s:%d" % (n, e) for n, e in t)), "pl": pl, "t": t,
            "d": [int(x) for x in u.dimension.exponents], "sc": bool(sc)}
    if not sc:      # scale-ness can change when a later declaration makes a base a scale: only cache the stable answer late
        _ucache[id(u)] = (u, desc)
    return desc


def _Q(q):
    m = q.magnitude
    lm, sg = None, None
    try:
        if isinstance(m, (int, float, Decimal)) and not isinstance(m, bool) and m == m:
            sg = 0 if m == 0 else (1 if m > 0 else -1)
            if sg:
                lm = _lat(_ln(abs(m)))
    except Exception:
        pass
    return {"u": _U(q.unit), "mk": _kind(m), "lm": lm, "sg": sg}


def _emit(ev):
    _count["raw"] += 1
    s = json.dumps(ev, sort_keys=True, ensure_ascii=False)
    if ev["e"] in ("decl", "scale"):
        _seen.clear()
    elif s in _seen:
        return
    else:
        _seen.add(s)
    _count["written"] += 1
    _out.write(s + "\n")


def _outer():
    d = getattr(_tl, "d", 0)
    _tl.d = d + 1
    return d == 0


def _leave():
    _tl.d -= 1


def _exc_name(ex, conversions):
    if isinstance(ex, conversions.ConversionNotFound):
        return "CNF"
    return "OTHER:" + type(ex).__name__


def install(path):
    """wrap the public entry points; everything shipped is imported FIRST, so that only the program's own declarations
    appear as events (the sizes of shipped units are solved from the shipped declarations by DefGraph)"""
    global _out
    if _installed[0]:
        return
    _installed[0] = True
    import measured
    import measured.systems  # noqa: F401
    from measured import Quantity, Unit, conversions
    _out = open(path, "w", buffering=1 << 16)
    _out.write(json.dumps({"e": "start", "ndim": len(measured.One.dimension.exponents)}) + "\n")

    # ---- declarations
    orig_equals = Unit.equals
    orig_translate = conversions.translate

    def equals(self, other):
        top = _outer()
        done = False
        try:
            r = orig_equals(self, other)
            done = True
            return r
        finally:
            _leave()
            if done:        # a declaration that raised declared nothing
                try:
                    a, b = _U(self), _U(other.unit)
                    t = {}
                    for n, e in a["t"]:
                        t[n] = t.get(n, 0) + e
                    for n, e in b["t"]:
                        t[n] = t.get(n, 0) - e
                    lk = _ln(other.magnitude)
                    lat = None
                    if lk is not None and a["pl"] is not None and b["pl"] is not None:
                        # 1 * (pa * L) = k * (pb * R)   =>   L / R = k * pb / pa
                        lat = _lat(lk + (b["pl"] - a["pl"]) * STEP)
                    _emit({"e": "decl", "t": sorted([n, e] for n, e in t.items() if e), "lat": lat,
                           "text": "%s.equals(%r * %s)" % (a["k"], other.magnitude, b["k"])})
                except Exception as ex:        # a malformed declaration (the call itself raised): nothing was declared
                    _emit({"e": "note", "what": "decl-unrecorded:%s" % type(ex).__name__})

    def translate(scale, zero):
        done = False
        try:
            r = orig_translate(scale, zero)
            done = True
            return r
        finally:
            try:
                if not done:
                    raise ValueError
                _ucache.clear()
                _emit({"e": "scale", "b": sorted({n for n, _ in _U(scale)["t"]} | {n for n, _ in _U(zero.unit)["t"]})})
            except Exception:
                pass

    Unit.equals = equals
    conversions.translate = translate

    # ---- conversions
    orig_in_unit = Quantity.in_unit

    def in_unit(self, other):
        top = getattr(_tl, "c", 0) == 0
        _tl.c = getattr(_tl, "c", 0) + 1
        _outer()
        out, res = "ok", None
        try:
            res = orig_in_unit(self, other)
            return res
        except BaseException as ex:
            out = _exc_name(ex, conversions)
            raise
        finally:
            _leave()
            _tl.c -= 1
            if top and isinstance(other, Unit):
                ev = {"e": "conv", "a": _U(self.unit), "b": _U(other), "out": out, "obs": None, "zero": False, "sign": True,
                      "same": True, "mk": _kind(self.magnitude), "rk": None}
                if res is not None:
                    m, r = self.magnitude, res.magnitude
                    ev["same"] = res.unit is other
                    ev["rk"] = _kind(r)
                    try:
                        if m == 0:
                            ev["zero"] = True
                            ev["sign"] = (r == 0)
                        elif isinstance(r, float) and (r == 0 or r != r or abs(r) == float("inf")):
                            pass        # a float result under- or overflowed (or the source was not finite): rounding, not judged
                        else:
                            ev["sign"] = (r > 0) == (m > 0)
                            lm, lr = _ln(abs(m)), _ln(abs(r))
                            if lm is not None and lr is not None:
                                ev["obs"] = _lat(lr - lm)
                    except Exception:
                        pass
                _emit(ev)

    Quantity.in_unit = in_unit

    # ---- arithmetic
    def wrap_arith(name, op, arity):
        orig = getattr(Quantity, name)

        def f(self, *args):
            top = _outer()
            out, res = "ok", None
            try:
                res = orig(self, *args)
                return res
            except BaseException as ex:
                out = _exc_name(ex, conversions)
                raise
            finally:
                _leave()
                if top:
                    try:
                        ev = {"e": "arith", "op": op, "l": _Q(self), "r": None, "n": None, "out": out, "res": None}
                        if arity == 2:
                            o = args[0]
                            if isinstance(o, Quantity):
                                ev["r"] = _Q(o)
                            elif isinstance(o, Unit):
                                ev["r"] = {"unit": _U(o)}
                            elif isinstance(o, (int, float, Decimal)):
                                ev["r"] = {"num": _kind(o)}
                            else:
                                ev["r"] = {"foreign": type(o).__name__}
                        elif arity == "n":
                            ev["n"] = args[0] if isinstance(args[0], int) and not isinstance(args[0], bool) and abs(args[0]) < 1000 else None
                            if ev["n"] is None:
                                ev["r"] = {"foreign": type(args[0]).__name__}
                        if res is NotImplemented:
                            ev["out"] = "NI"
                        elif isinstance(res, Quantity):
                            ev["res"] = _Q(res)
                        elif res is not None:
                            ev["out"] = "NONQ:" + type(res).__name__
                        _emit(ev)
                    except Exception as ex:
                        _emit({"e": "note", "what": "arith-unrecorded:%s:%s" % (op, type(ex).__name__)})
        f.__name__ = name
        f.__qualname__ = "Quantity." + name
        setattr(Quantity, name, f)
        return f

    wrap_arith("__add__", "add", 2)
    wrap_arith("__sub__", "sub", 2)
    mul = wrap_arith("__mul__", "mul", 2)
    Quantity.__rmul__ = mul
    wrap_arith("__truediv__", "div", 2)
    wrap_arith("__rtruediv__", "rdiv", 2)
    wrap_arith("__pow__", "pow", "n")
    wrap_arith("root", "root", "n")
    wrap_arith("__neg__", "neg", 1)
    wrap_arith("__pos__", "pos", 1)
    wrap_arith("__abs__", "abs", 1)

    # ---- comparisons
    def wrap_cmp(name, op):
        orig = getattr(Quantity, name)

        def f(self, other):
            top = _outer()
            out = None
            try:
                r = orig(self, other)
                out = "NI" if r is NotImplemented else ("T" if r else "F")
                return r
            except BaseException as ex:
                out = _exc_name(ex, conversions)
                raise
            finally:
                rev, hq = None, None
                if top and isinstance(other, Quantity) and type(other) is type(self):
                    # the same question the other way round, and the two hashes (still inside the recorded call: not recorded)
                    try:
                        r2 = orig(other, self)
                        rev = "NI" if r2 is NotImplemented else ("T" if r2 else "F")
                    except BaseException as ex2:
                        rev = _exc_name(ex2, conversions)
                    try:
                        hq = "T" if hash(self) == hash(other) else "F"
                    except BaseException:
                        hq = "NA"
                _leave()
                if top and isinstance(other, Quantity):
                    try:
                        _emit({"e": "cmp", "op": op, "l": _Q(self), "r": _Q(other), "out": out, "rev": rev, "hq": hq})
                    except Exception as ex:
                        _emit({"e": "note", "what": "cmp-unrecorded:%s" % type(ex).__name__})
        f.__name__ = name
        f.__qualname__ = "Quantity." + name
        setattr(Quantity, name, f)

    wrap_cmp("__eq__", "eq")
    wrap_cmp("__lt__", "lt")


def finish():
    if _out is not None:
        _out.write(json.dumps({"e": "end", "raw": _count["raw"], "written": _count["written"]}) + "\n")
        _out.close()


# ---- pytest plugin interface
def pytest_sessionstart(session):
    install(os.environ["VERIF_OPS_OUT"])


def pytest_runtest_setup(item):
    if _out is not None:
        _out.write(json.dumps({"e": "test", "id": item.nodeid}) + "\n")


def pytest_sessionfinish(session, exitstatus):
    finish()
