"""./check selftest: negative controls.  Each spec that judges recorded traces or extracted constants is given one
deliberately wrong input and must object; a control that passes silently is a machinery failure (exit 2)."""
from core import MachineryError, run_tlc, workdir


def run(tier, seed):
    results = []

    def expect(name, cond, detail=""):
        results.append((name, bool(cond), detail))
        print("%-62s %s %s" % (name, "ok" if cond else "FAILED", detail))

    # 1. linearizability: the placeholder holds one linearizable history and one with two objects for one key
    r = run_tlc("MC_InternTrace", wd=workdir("st_intern"), workers=1, timeout=300)
    expect("InternAtomic accepts the good history, rejects two objects", r.exports.get("ACC") == [1], str(r.exports.get("ACC")))
    # 2. LR product: change one cell of table B
    data = open(__import__("os").path.join(__import__("core").SPEC, "LRData.tla")).read()
    bad = data.replace('DActB == DActA', 'DActB == [DActA EXCEPT ![1] = ("x" :> [k |-> "R", to |-> 0, rule |-> 1])]')
    tr = open(__import__("os").path.join(__import__("core").SPEC, "LRTraceData.tla")).read()
    r = run_tlc("MC_LR", wd=workdir("st_lr"), env={"VERIF_LRMODE": "iso"}, workers=1, timeout=300, overlay={"LRData.tla": bad, "LRTraceData.tla": tr})
    expect("LR product objects to a re-keyed table cell", "C16_Rows" in r.violated, str(r.violated))
    # 3. DefGraph: an inconsistent redundant definition (c = 7 a instead of 6 a)
    dg = ('---- MODULE DefGraphData ----\nEXTENDS Integers\nDRoots == {"a"}\nDBases == {"a", "b", "c", "d"}\nDClasses == {}\n'
          'DDecls == << [lat |-> 693147, t |-> {<<"b", 1>>, <<"a", -1>>}], [lat |-> 1098612, t |-> {<<"c", 1>>, <<"b", -1>>}],\n'
          '             [lat |-> 1945910, t |-> {<<"c", 1>>, <<"a", -1>>}] >>\n====\n')
    r = run_tlc("MC_DefGraph", wd=workdir("st_defgraph"), workers=1, timeout=300, overlay={"DefGraphData.tla": dg})
    expect("DefGraph reports the inconsistent definition", any(b.get("kind") == "residual" for b in r.exports.get("BAD", [])), str(r.exports.get("BAD"))[:80])
    expect("DefGraph reports the unconnected unit", any(u.get("b") == "d" for u in r.exports.get("UNGROUNDED", [])), str(r.exports.get("UNGROUNDED"))[:80])
    # 4. Text: prefix m + unit in collides with unit min
    td = ('---- MODULE TextData ----\nEXTENDS TLC\nDPBySym == (<<109>> :> 1)\nDUBySym == (<<105, 110>> :> 1 @@ <<109, 105, 110>> :> 2)\n'
          'DUByName == << >>\nDPSymOf == (1 :> <<109>>)\nDUSymOf == (1 :> <<105, 110>> @@ 2 :> <<109, 105, 110>>)\n====\n')
    r = run_tlc("MC_Text", wd=workdir("st_text"), workers=1, timeout=300, overlay={"TextData.tla": td})
    expect("Text finds the m+in / min collision", any(c["p"] == 1 and c["u"] == 1 and c["r"] == [0, 2] for c in r.exports.get("COL", [])), str(r.exports.get("COL"))[:80])
    # 5. Names trace: a declared name that is not bound afterwards, and a symbol declared for two prefixes
    nt = ('---- MODULE NamesTraceData ----\nNTraces == << <<\n'
          ' [op |-> "named", c |-> "prefix", k |-> "P(10,1)", n |-> "deca", s |-> "d", out |-> "ok", bn |-> "P(10,1)", bs |-> "P(10,1)", rn |-> TRUE, rs |-> TRUE],\n'
          ' [op |-> "named", c |-> "prefix", k |-> "P(10,-1)", n |-> "deci", s |-> "d", out |-> "ok", bn |-> "", bs |-> "P(10,1)", rn |-> FALSE, rs |-> FALSE] >> >>\n====\n')
    r = run_tlc("MC_NamesTrace", wd=workdir("st_names"), workers=1, timeout=300, overlay={"NamesTraceData.tla": nt})
    clauses = {b["clause"] for b in r.exports.get("BAD", [])}
    expect("Names trace spec rejects the shipped Deci/Deca history", {"declared-name-not-bound", "symbol-bound-to-two-objects"} <= clauses, str(sorted(clauses)))
    # 6. mechanism models: violation without the repair, none with it
    r = run_tlc("MC_InternShipped", wd=workdir("st_is"), workers=1, timeout=300)
    expect("InternShipped (no lock) violates C20_Single", "C20_Single" in r.violated)
    r = run_tlc("MC_Memo", wd=workdir("st_memo"), workers=1, timeout=300)
    expect("MemoShipped violates C08_Function", "C08_Function" in r.violated)
    # 7. Ledger: a hand-written history with one violation of each family must be rejected clause by clause, and the
    #    same history without them must be clean
    import json
    import os
    import ledger

    def U(k, pl, t, d):
        return {"k": k, "pl": pl, "t": t, "d": d, "sc": False}

    def Q(u, lm, sg, mk="float"):
        return {"u": u, "mk": mk, "lm": lm, "sg": sg}
    L, T = [0, 1, 0], [0, 0, 1]
    meter, foot, yard, sec = U("0|meter:1", 0, [["meter", 1]], L), U("0|foot:1", 0, [["foot", 1]], L), U("0|yard:1", 0, [["yard", 1]], L), U("0|second:1", 0, [["second", 1]], T)

    def conv(a, b, out, obs, **kw):
        e = {"e": "conv", "a": a, "b": b, "out": out, "obs": obs, "zero": False, "sign": True, "same": True, "mk": "float", "rk": "float"}
        e.update(kw)
        return e
    good = [{"e": "decl", "t": [["foot", 1], ["meter", -1]], "lat": -1188091, "text": "foot = 0.3048 m"}, {"e": "start"},
            conv(foot, meter, "ok", -1188091), conv(meter, foot, "ok", 1188091), conv(yard, meter, "CNF", None),
            {"e": "decl", "t": [["yard", 1], ["foot", -1]], "lat": 1098612, "text": "yard = 3 ft"}, conv(yard, meter, "ok", -89479),
            {"e": "arith", "op": "add", "l": Q(meter, 0, 1), "r": Q(foot, 0, 1), "n": None, "out": "ok", "res": Q(meter, 266000, 1)},
            {"e": "cmp", "op": "lt", "l": Q(foot, 0, 1), "r": Q(meter, 0, 1), "out": "T", "rev": "F", "hq": "F"},
            {"e": "cmp", "op": "eq", "l": Q(meter, 0, 1), "r": Q(meter, 0, 1, "int"), "out": "T", "rev": "T", "hq": "T"}]
    bad = [good[0], good[1],
           conv(foot, meter, "ok", -1188091 + 500),                                   # C04 value (5e-4 off)
           conv(foot, meter, "ok", -1188091 + 900),                                   # C08 repeat differs (and value)
           conv(meter, foot, "ok", 1188091, same=False),                              # C04 unit
           conv(yard, meter, "CNF", None), conv(yard, meter, "ok", None),             # C08 fail then ok in one epoch
           conv(meter, sec, "ok", 0),                                                 # C03 incommensurable converted
           conv(meter, foot, "OTHER:KeyError", None),                                 # C07 escaped (and C08 ok then fail is CNF only)
           {"e": "arith", "op": "add", "l": Q(meter, 0, 1), "r": Q(sec, 0, 1), "n": None, "out": "ok", "res": Q(meter, 0, 1)},         # C03
           {"e": "arith", "op": "mul", "l": Q(meter, 0, 1, "Decimal"), "r": Q(foot, 0, 1), "n": None, "out": "ok", "res": Q(U("0|foot:1,meter:1", 0, [["foot", 1], ["meter", 1]], [0, 2, 0]), 5000, 1)},  # C03 decimal lost, C06 value (5e-3 off)
           {"e": "arith", "op": "add", "l": Q(meter, 0, 1), "r": Q(foot, 6907755, 1), "n": None, "out": "ok", "res": Q(meter, 6908755, 1)},   # 1 m + 1000 ft = 1001 m
           {"e": "arith", "op": "sub", "l": Q(foot, 6907755, 1), "r": Q(meter, 0, -1), "n": None, "out": "ok", "res": Q(foot, 0, 1)},       # 1000 ft - (-1 m) = 1 ft
           {"e": "cmp", "op": "lt", "l": Q(meter, 0, 1), "r": Q(foot, 0, 1), "out": "T"},       # C12: 1 m < 1 ft
           {"e": "cmp", "op": "eq", "l": Q(foot, 0, 1), "r": Q(meter, 0, 1), "out": "F", "rev": "T", "hq": "F"},     # == the other way round
           {"e": "cmp", "op": "lt", "l": Q(foot, 0, 1), "r": Q(meter, 0, 1), "out": "T", "rev": "T", "hq": "F"},     # < both ways
           {"e": "cmp", "op": "eq", "l": Q(meter, 0, 1), "r": Q(meter, 0, 1, "int"), "out": "T", "rev": "T", "hq": "F"},   # equal, one unit, hashes differ
           {"e": "cmp", "op": "eq", "l": Q(meter, 0, 1), "r": Q(sec, 0, 1), "out": "F", "rev": "T", "hq": "F"}]      # m == s the other way round
    wd = workdir("st_ledger")
    got = {}
    for label, evs in (("good", good), ("bad", bad)):
        f = os.path.join(wd, label + ".ndjson")
        with open(f, "w") as fh:
            for e in ledger.normalise(evs):
                fh.write(json.dumps(e) + "\n")
        r = run_tlc("MC_LedgerTrace", wd=workdir("st_ledger_" + label), env={"VERIF_TRACE_FILE": f}, workers=1, timeout=300)
        got[label] = sorted({b["clause"] for b in r.exports.get("BAD", [])}) if r.exports.get("DONE") and not r.errors else ["TLC failed: %s" % r.errors[:1]]
    want = {"C04:conv:value", "C08:conv:repeat-differs", "C04:conv:unit-not-the-requested-one", "C08:conv:failed-then-succeeded-without-a-declaration",
            "C03:conv:incommensurable-not-rejected", "C07:conv:escaped:OTHER:KeyError", "C03:add:incommensurable-not-rejected", "C03:mul:decimal-lost",
            "C06:mul:physical-value", "C06:add:sum-outside-the-range-of-its-operands", "C06:sub:sum-outside-the-range-of-its-operands", "C12:cmp:lt:disagrees-with-physical-order", "C12:cmp:eq:other-way-round-disagrees-with-physical-order",
            "C12:cmp:lt:other-way-round-disagrees-with-physical-order", "C12:cmp:eq:equal-in-one-unit-but-hashes-differ",
            "C03:cmp:eq:incommensurable-compared-the-other-way-round"}
    expect("Ledger accepts the consistent history", got["good"] == [], str(got["good"])[:120])
    expect("Ledger rejects each planted violation by its clause", want <= set(got["bad"]), str(sorted(want - set(got["bad"])))[:160])
    if not all(ok for _, ok, _ in results):
        raise MachineryError("self-test failed: %s" % [n for n, ok, _ in results if not ok])
    print("selftest: %d negative controls behaved as required" % len(results))
    return 0
