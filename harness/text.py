"""C13: str() output parses back; spellings are equivalent (spec/Text.tla, MC_Text)."""
import json
import os
import random
import sys

from core import MachineryError, REPO, Verdict, require_ok, run_isolated, run_tlc, workdir

MODULE_SETS = {"si": ["si"], "si+us": ["si", "us", "avoirdupois"], "all": ["systems"]}


def _cps(s):
    return "<<" + ", ".join(str(ord(c)) for c in s) + ">>"


def tables(modset):
    """in an isolated child: the symbol tables of the running library as TLA+ constants"""
    sys.path.insert(0, os.path.join(REPO, "src"))
    import importlib
    import measured
    for mod in MODULE_SETS[modset]:
        importlib.import_module("measured." + mod)
    from measured import Prefix, Unit
    prefixes = [p for s, p in sorted(Prefix._by_symbol.items())]
    units = []
    for s, u in sorted(Unit._by_symbol.items(), key=lambda kv: kv[0]):
        if u not in units and u.symbol:
            units.append(u)
    pidx = {id(p): i + 1 for i, p in enumerate(prefixes)}
    uidx = {id(u): i + 1 for i, u in enumerate(units)}

    def fn(pairs):
        return "(" + " @@ ".join("%s :> %s" % (k, v) for k, v in pairs) + ")" if pairs else "<< >>"
    data = "---- MODULE TextData ----\nEXTENDS TLC\n"
    data += "DPBySym == %s\n" % fn([(_cps(s), pidx[id(p)]) for s, p in sorted(Prefix._by_symbol.items())])
    data += "DUBySym == %s\n" % fn([(_cps(s), uidx[id(u)]) for s, u in sorted(Unit._by_symbol.items()) if id(u) in uidx])
    data += "DUByName == %s\n" % fn([(_cps(s), uidx[id(u)]) for s, u in sorted(Unit._by_name.items()) if id(u) in uidx])
    data += "DPSymOf == %s\n" % fn([(pidx[id(p)], _cps(p.symbol)) for p in prefixes])
    data += "DUSymOf == %s\n" % fn([(uidx[id(u)], _cps(u.symbol)) for u in units])
    data += "====\n"
    return {"data": data, "nprefix": len(prefixes), "nunit": len(units)}


def same_scale(m, parsed, orig):
    """identical object, or an equal unit of the same dimension (the deliberate 'kg' mapping): ratio 1"""
    if parsed is orig:
        return "identical", None
    if parsed.dimension is not orig.dimension:
        return "different-dimension", None
    try:
        r = (1 * parsed).in_unit(orig).magnitude
    except Exception as ex:
        return "unconvertible:" + type(ex).__name__, None
    if abs(float(r) - 1.0) <= 1e-9:
        return "equal-unit", r
    return "different-value", r


def implementation(args):
    """in an isolated child with the given module set imported"""
    modset, collisions, seed, budget = args
    sys.path.insert(0, os.path.join(REPO, "src"))
    import importlib
    import measured as m
    for mod in MODULE_SETS[modset]:
        importlib.import_module("measured." + mod)
    from measured import Prefix, Quantity, Unit
    from measured.parsing import ParseError
    rng = random.Random(seed)
    prefixes = [p for s, p in sorted(Prefix._by_symbol.items())]
    units = []
    for s, u in sorted(Unit._by_symbol.items(), key=lambda kv: kv[0]):
        if u not in units and u.symbol:
            units.append(u)
    out = {"viol": [], "n": 0, "identical": 0, "equal": 0, "drift": [], "resolve_checked": 0}
    col = {(c["p"], c["u"]): c["r"] for c in collisions}

    def add(key, detail):
        out["viol"].append([key, detail])

    # (0) conformance of the spec's Resolve with the real resolve_symbol, on every prefix x unit symbol
    for pi, p in enumerate(prefixes, start=1):
        for ui, u in enumerate(units, start=1):
            text = p.symbol + u.symbol
            want = col.get((pi, ui), [pi, ui])
            try:
                got = Unit.resolve_symbol(text)
            except KeyError:
                got = None
            exp = None if want[0] == -1 else ((prefixes[want[0] - 1] * units[want[1] - 1]) if want[0] else units[want[1] - 1])
            out["resolve_checked"] += 1
            if got is not exp:
                out["drift"].append("resolve_symbol(%r): spec %r, code %r" % (text, exp, got))

    def first_term_key(unit):
        """str() writes the unit's prefix on its first factor: name that (prefix symbol, unit symbol) pair"""
        try:
            f, e = next(iter(unit.factors.items()))
            p = unit.prefix * f.prefix
            try:
                p = p.root(e)
            except Exception:
                return "prefix-not-divisible-by-first-exponent"
            if p.base != 0 and p.exponent != 0 and not p.symbol:
                return "unregistered-prefix-after-pushdown"
            return "%s+%s" % (p.symbol or "", f.symbol)
        except Exception:
            return "?"

    def roundtrip(unit, what, pname="", usym=""):
        out["n"] += 1
        try:
            text = str(unit)
        except Exception as ex:
            add("str-raised:%s" % type(ex).__name__, "%s" % what)
            return
        try:
            parsed = Unit.parse(text)
        except (ParseError, KeyError) as ex:
            cause = first_term_key(unit)
            if "+" in cause:
                cause = "other:" + type(ex).__name__
            add("unparseable:%s" % cause, "str(%s) = %r does not parse (%s)" % (what, text, type(ex).__name__))
            return
        except Exception as ex:
            add("parse-escaped:%s" % type(ex).__name__, "str(%s) = %r" % (what, text))
            return
        verdict, r = same_scale(m, parsed, unit)
        if verdict == "identical":
            out["identical"] += 1
        elif verdict == "equal-unit":
            out["equal"] += 1
        elif verdict == "different-value":
            add("different-value:%s" % first_term_key(unit), "str(%s) = %r parses to %s, %s times the original" % (what, text, parsed, r))
        else:
            add("%s:%s" % (verdict, first_term_key(unit)), "str(%s) = %r parses to %s" % (what, text, parsed))

    # (1) every prefix x named unit x exponent (sampled down to the budget)
    cases = [(p, u, e) for p in [None] + prefixes for u in units for e in (1, -1, 2, -2, 3, -3)]
    big = [(None, u, e) for u in rng.sample(units, min(40, len(units))) for e in (10, 12, -21, 120)]   # multi-digit exponents
    if len(cases) > budget:
        keep = set(rng.sample(range(len(cases)), budget))
        # always keep exponent 1 of every TLC collision
        cases = [c for i, c in enumerate(cases) if i in keep] + [(prefixes[p - 1], units[u - 1], 1) for (p, u) in col if p > 0]
    for p, u, e in cases + big:
        unit = (u if p is None else p * u) ** e
        roundtrip(unit, "(%s%s)**%d" % ((p.name or p.symbol) + "*" if p else "", u.name or u.symbol, e), p.symbol if p else "", u.symbol)

    # (2) products and quotients of two terms
    for _ in range(budget // 4):
        a, b = rng.choice(units), rng.choice(units)
        p = rng.choice([None] + prefixes)
        e1, e2 = rng.choice([1, 2, -1]), rng.choice([1, -1, -2])
        unit = ((a if p is None else p * a) ** e1) * (b ** e2)
        roundtrip(unit, "%s%s^%d*%s^%d" % (p.symbol if p else "", a.symbol, e1, b.symbol, e2))

    # (3) spellings of one expression parse to the same unit
    sup = str.maketrans("-0123456789", "⁻⁰¹²³⁴⁵⁶⁷⁸⁹")
    simple = [u for u in units if u.symbol.isalpha() and u.symbol.isascii()]
    nspell = 0
    for _ in range(budget // 8):
        terms = [(rng.choice(simple), rng.choice([1, 2, -1, -2, 3, 12, -10])) for _ in range(rng.randint(1, 3))]
        expected = m.One
        for u, e in terms:
            expected = expected * u ** e
        spellings = set()
        for style in range(6):
            def term(u, e, neg_ok=True):
                if e == 1:
                    return u.symbol
                return u.symbol + ("^%d" % e if style % 2 == 0 else str(e).translate(sup))
            seps = ["*", "⋅", " ", " * ", " ⋅ ", "  "]
            spellings.add(seps[style].join(term(u, e) for u, e in terms))
            num = [(u, e) for u, e in terms if e > 0]
            den = [(u, -e) for u, e in terms if e < 0]
            if num and den:
                spellings.add(seps[style].join(term(u, e) for u, e in num) + ("/" if style % 2 else " / ") + seps[style].join(term(u, e) for u, e in den))
        names = [u.name for u, e in terms]
        if all(n and n.isalpha() and n.isascii() for n in names):
            spellings.add(" ".join(n + ("^%d" % e if e != 1 else "") for n, (u, e) in zip(names, terms)))
        for text in sorted(spellings):
            nspell += 1
            try:
                got = Unit.parse(text)
            except Exception as ex:
                add("spelling:rejected:%s" % type(ex).__name__, "%r (one spelling of %s) raised %s" % (text, expected, type(ex).__name__))
                continue
            if got is not expected:
                v, r = same_scale(m, got, expected)
                if v != "equal-unit":
                    add("spelling:different-unit", "%r parses to %s, other spellings denote %s" % (text, got, expected))
            # the same spelling behind a magnitude must denote magnitude * that unit
            for mtext, mval in (("5", 5), ("2.5", 2.5)):
                try:
                    q = Quantity.parse(mtext + " " + text)
                except Exception as ex:
                    add("spelling:quantity-rejected:%s" % type(ex).__name__, "Quantity.parse(%r) raised %s although Unit.parse accepts the unit text" % (mtext + " " + text, type(ex).__name__))
                    continue
                vq, rq = same_scale(m, q.unit, expected)
                if q.magnitude != mval or type(q.magnitude) is not type(mval) or vq not in ("identical", "equal-unit"):
                    add("spelling:quantity-differs", "Quantity.parse(%r) gave %r, expected %s %s" % (mtext + " " + text, q, mval, expected))
    out["spellings"] = nspell

    # (3b) whitespace is significant: a prefix symbol that is also a unit symbol (m, h, d, T, ...) followed by a unit
    # symbol reads as ONE prefixed unit when written together and as the PRODUCT of two units when separated - whatever
    # was parsed earlier in the process (half of the pairs are asked in one order, half in the other)
    usym = {u.symbol: u for u in units}
    both = [(pfx, usym[pfx.symbol]) for pfx in prefixes if pfx.symbol in usym]
    pairs = [(pfx, pu, u) for pfx, pu in both for u in units if u.symbol.isalpha()]
    rng.shuffle(pairs)
    pairs = pairs[:max(200, budget // 10)]
    out["juxtaposed"] = len(pairs)
    for k, (pfx, pu, u) in enumerate(pairs):
        together, apart = pfx.symbol + u.symbol, pfx.symbol + " " + u.symbol
        try:
            want_together = Unit.resolve_symbol(together)          # exact symbol first, then prefix + symbol (judged in (0))
        except KeyError:
            want_together = None
        want_apart = pu * u
        order = [(together, want_together), (apart, want_apart)]
        if k % 2:
            order.reverse()
        for text, want in order + order[:1]:
            out["n"] += 1
            try:
                got = Unit.parse(text)
            except (ParseError, KeyError):
                got = None
            if got is not want:
                add("spelling:whitespace-not-significant:%s" % ("together" if text == together else "apart"),
                    "Unit.parse(%r) gave %s, expected %s (asked %s the other spelling)" % (text, got, want, "after" if (text, want) != order[0] else "before"))

    # (4) quantities: equal quantity back
    for _ in range(budget // 8):
        u = rng.choice(units)
        p = rng.choice([None] + prefixes)
        e = rng.choice([1, 1, -1, 2, -2, 3])
        unit = (u ** e) if p is None else rng.choice([p * (u ** e), (p * u) ** e])
        for mag in (rng.choice([0, 1, -3, 12, 1000]), rng.choice([0.5, -2.25, 1e-3, 6.02e23])):
            q = Quantity(mag, unit)
            out["n"] += 1
            try:
                back = Quantity.parse(str(q))
            except Exception as ex:
                cause = first_term_key(unit)
                add("quantity:unparseable:%s" % (cause if "+" not in cause else "other:" + type(ex).__name__), "str(%r) = %r" % (q, str(q)))
                continue
            # an EQUAL quantity is demanded (str() may fold a prefix into the magnitude), not the same spelling
            try:
                conv = back.in_unit(unit).magnitude
                ok = abs(float(conv) - float(mag)) <= 1e-9 * max(abs(float(mag)), abs(float(conv)))
            except Exception as ex:
                conv, ok = type(ex).__name__, False
            if not ok:
                key = first_term_key(unit)
                add("quantity:not-equal:%s" % key, "%r -> %r -> %r (in the original unit: %r)" % (q, str(q), back, conv))
    return out


def first_term_key_of(unit):
    """str() writes the unit's prefix on its first factor: name that (prefix symbol, factor symbol) pair - the text that
    actually collides, whatever named unit the expression happens to be"""
    try:
        f, e = next(iter(unit.factors.items()))
        p = unit.prefix * f.prefix
        try:
            p = p.root(e)
        except Exception:
            return "prefix-not-divisible-by-first-exponent"
        if p.base != 0 and p.exponent != 0 and not p.symbol:
            return "unregistered-prefix-after-pushdown"
        return "%s+%s" % (p.symbol or "", f.symbol)
    except Exception:
        return "?"


STAGES = [["si"], ["us", "avoirdupois", "troy", "energy"], ["systems"]]


def incremental(args):
    """one process that imports the unit modules stage by stage, rendering and parsing after each stage:
    what a text meant BEFORE a module was imported must not leak into how it is read afterwards"""
    seed, = args
    sys.path.insert(0, os.path.join(REPO, "src"))
    import importlib
    import measured as m
    from measured import Prefix, Unit
    from measured.parsing import ParseError
    out = {"viol": [], "n": 0}
    for si, stage in enumerate(STAGES, start=1):
        for mod in stage:
            importlib.import_module("measured." + mod)
        prefixes = [p for s, p in sorted(Prefix._by_symbol.items())]
        units = []
        for s, u in sorted(Unit._by_symbol.items(), key=lambda kv: kv[0]):
            if u not in units and u.symbol:
                units.append(u)
        for u in units:
            for p in [None] + prefixes:
                unit = u if p is None else p * u
                out["n"] += 1
                text = str(unit)
                try:
                    parsed = Unit.parse(text)
                except (ParseError, KeyError):
                    continue
                if parsed is unit:
                    continue
                v, r = same_scale(m, parsed, unit)
                if v != "equal-unit":
                    out["viol"].append(["%s:%s" % (v, first_term_key_of(unit)),
                                        "after importing stage %d (%s): str(%s%s) = %r parses to %s" % (si, "+".join(stage), (p.name + "*") if p else "", u.name, text, parsed)])
    return out


def run_c13(tier, seed):
    v = Verdict("C13", tier, seed)
    v.assumptions = ["the symbol tables given to TLC are those of the running library (extracted at check time, per module set)",
                     "SameScale = identical object, or same dimension and conversion ratio 1 within 1e-9 (the library's own conversion is trusted for that ratio)",
                     "single terms: every registered prefix x named unit x exponent in +-1..+-3 (sampled in the quick tier); compound expressions and spellings are sampled; text itself is never compared"]
    budget = 4000 if tier == "quick" else 60000
    sets = ["all"] if tier == "quick" else ["si", "si+us", "all"]
    for modset in sets:
        t = run_isolated(tables, modset)
        res = run_tlc("MC_Text", wd=workdir("tlc_text_" + modset.replace("+", "_")), workers=8, timeout=3000, overlay={"TextData.tla": t["data"]})
        if res.errors:
            raise MachineryError("MC_Text failed: %s" % res.errors[:2])
        v.add_tlc(res, "MC_Text[%s]: %d prefixes x %d unit symbols" % (modset, t["nprefix"], t["nunit"]))
        if "C13_PlainSymbols" in res.violated:
            v.violations.append({"prop": "C13", "key": "model:plain-symbol-reads-as-another-unit", "detail": (res.traces or [""])[0][:800], "path": []})
        cols = res.exports.get("COL", [])
        impl = run_isolated(implementation, (modset, cols, seed, budget))
        v.impl += impl["n"]
        v.evaluations += impl["n"] + impl["resolve_checked"]
        v.nontrivial += impl["identical"] + impl["equal"]
        for d in impl["drift"][:3]:
            v.notes.append({"key": "resolve-model", "detail": d})
        if impl["drift"]:
            raise MachineryError("the Resolve model disagrees with Unit.resolve_symbol on %d strings, e.g. %s" % (len(impl["drift"]), impl["drift"][0]))
        seen = set()
        for k, d in impl["viol"]:
            if k not in seen:
                seen.add(k)
                v.violations.append({"prop": "C13", "key": k, "detail": "[%s] %s" % (modset, d), "path": [modset]})
        v.extra.setdefault("sets", []).append({"modules": modset, "prefixes": t["nprefix"], "unit_symbols": t["nunit"], "tlc_collisions": len(cols),
                                               "resolve_conformance_checked": impl["resolve_checked"], "roundtrips": impl["n"],
                                               "identical": impl["identical"], "equal_unit": impl["equal"], "spellings": impl.get("spellings", 0),
                                               "violation_instances": len(impl["viol"])})
    inc = run_isolated(incremental, (seed,))
    v.impl += inc["n"]
    v.evaluations += inc["n"]
    seen = {x["key"] for x in v.violations}
    for k, dd in inc["viol"]:
        if k not in seen:
            seen.add(k)
            v.violations.append({"prop": "C13", "key": k, "detail": "[incremental imports] " + dd, "path": ["incremental"]})
    v.extra["incremental_import_roundtrips"] = inc["n"]
    v.rule = ("cases = units rendered with str() and parsed back (prefix x unit x exponent, two-term products, quantities) plus alternative spellings; "
              "non-trivial = round trips that came back as the identical object or an equal unit; TLC's collision list is cross-checked against resolve_symbol on every prefix x unit symbol")
    v.samples = [c for c in (cols[:4] if cols else [{"note": "no collisions predicted"}])]
    return v.finish()
