"""Temperature scales: C10 (spec/Temp.tla, MC_Temp)."""
import os
import random
from decimal import Decimal
from fractions import Fraction

from core import MachineryError, Verdict, replay_histories, require_ok, run_tlc, workdir


class TempDriver:
    SPEC = "temperature:TempDriver"

    def __init__(self, props=("C10",)):
        self.kwargs = {"props": list(props)}
        self.props = set(props)

    def prepare(self):
        import alpha
        self.m = alpha.measured
        from measured import conversions
        from measured.si import Celsius, Kelvin
        from measured.us import Fahrenheit, Rankine
        self.conv = conversions
        self.scale = {"K": Kelvin, "C": Celsius, "R": Rankine, "F": Fahrenheit}

    def fresh_ctx(self):
        return {}

    def _unit(self, s, p):
        u = self.scale[s]
        return u if p == 0 else self.m.Prefix(10, p) * u

    def _mag(self, fr, kind):
        if kind == "int":
            return int(fr) if fr.denominator == 1 else None
        if kind == "float":
            return float(fr)
        return Decimal(fr.numerator) / Decimal(fr.denominator)

    def apply(self, ev, ctx, stats):
        mm = []
        g = Fraction(ev["m"][0], ev["m"][1])
        written = g / Fraction(10) ** ev["p"]
        src, dst = self._unit(ev["s"], ev["p"]), self._unit(ev["t"], ev["pt"])
        tag = "%s%s->%s%s" % (_pfx(ev["p"]), ev["s"], _pfx(ev["pt"]), ev["t"])
        shape = "%s->%s%s" % ("prefixed-source " if ev["p"] else "", "prefixed-target " if ev["pt"] else "", "same-scale" if ev["s"] == ev["t"] else "offset-or-degree-change")
        if ev["op"] == "convert":
            mag = self._mag(written, ev["k"])
            if mag is None:
                stats["skipped-nonintegral-int"] = stats.get("skipped-nonintegral-int", 0) + 1
                return []
            try:
                r = (mag * src).in_unit(dst)
            except Exception as ex:
                return [self._mm("C10", "convert:raised:%s:%s" % (type(ex).__name__, shape), "%s %s raised %r" % (mag, tag, ex))]
            stats["ok"] = stats.get("ok", 0) + 1
            want = Fraction(ev["r"][0], ev["r"][1]) / Fraction(10) ** ev["pt"]
            tol = Fraction(1, 10 ** 9) * max(abs(want), Fraction(1000) / Fraction(10) ** ev["pt"])
            got = Fraction(r.magnitude)
            if abs(got - want) > tol:
                mm.append(self._mm("C10", "convert:value:%s" % shape, "%r %s gave %r, the affine definitions give %s" % (mag, tag, r.magnitude, float(want))))
            if r.unit is not dst:
                mm.append(self._mm("C10", "convert:unit", "%s returned unit %s" % (tag, r.unit)))
            # there and back (relation between the code's own results)
            try:
                back = r.in_unit(src)
                tolb = Fraction(1, 10 ** 9) * max(abs(written), Fraction(1000) / Fraction(10) ** ev["p"])
                if abs(Fraction(back.magnitude) - written) > tolb:
                    mm.append(self._mm("C10", "roundtrip:%s" % shape, "%r %s and back gave %r" % (mag, tag, back.magnitude)))
            except Exception as ex:
                mm.append(self._mm("C10", "roundtrip:raised:%s" % type(ex).__name__, tag))
        elif ev["op"] == "compare":
            g2 = Fraction(ev["m2"][0], ev["m2"][1])
            a = float(written) * src
            b = float(g2 / Fraction(10) ** ev["pt"]) * dst
            n = ev["n"]
            if n == 0:
                stats["ties-not-judged"] = stats.get("ties-not-judged", 0) + 1
                return []
            res = {}
            for name, f in (("==", lambda: a == b), ("<", lambda: a < b), (">", lambda: a > b), ("<=", lambda: a <= b),
                            (">=", lambda: a >= b), ("r<", lambda: b < a), ("r==", lambda: b == a)):
                try:
                    res[name] = f()
                except Exception as ex:
                    res[name] = type(ex).__name__
            want = {"==": False, "<": n < 0, ">": n > 0, "<=": n < 0, ">=": n > 0, "r<": n > 0, "r==": False}
            stats["ok"] = stats.get("ok", 0) + 1
            bad = {k: res[k] for k in want if res[k] != want[k]}
            if bad:
                mm.append(self._mm("C10", "compare:%s" % shape, "%s %s vs %s %s (kelvin order %+d): %s" % (float(written), tag.split("->")[0], float(g2), tag.split("->")[1], n, bad)))
        return mm

    def _mm(self, prop, key, detail):
        return {"prop": prop, "key": key, "detail": detail}


def _pfx(p):
    return {0: "", 3: "k", -3: "m", 6: "M", -6: "u"}.get(p, "10^%d " % p)


def compare_cases_for(v, prop, tier, seed):
    """the cross-scale COMPARISONS of the Temp model judged for another property's check (C06: the truth of == and <
    does not change when an operand is written in another scale): the same TLC cases, cold replay only"""
    res = run_tlc("MC_Temp", wd=workdir("tlc_temp_" + prop), env={"VERIF_TTIER": 1}, workers=8, timeout=3000)
    require_ok(res, "MC_Temp")
    v.add_tlc(res, "MC_Temp (cross-scale comparisons)")
    cases = [c for c in res.exports.get("E", []) if c["op"] == "compare"]
    rep = replay_histories([[c] for c in cases], TempDriver(), split_depth=1, label="temp_cmp_" + prop)
    v.impl += rep["n"]
    v.evaluations += rep["n"]
    v.nontrivial += rep["stats"].get("ok", 0)
    v.add_violations([dict(x, prop=prop, key="scales:" + x["key"]) for x in rep["mm"] if x["key"].startswith("compare:")])
    v.extra["cross_scale_comparisons"] = {"cases": len(cases), "stats": rep["stats"]}


def _reexpress_child(seed):
    import sys
    from core import REPO
    sys.path.insert(0, os.path.join(REPO, "src"))
    from decimal import Decimal
    import measured.si as si
    import measured.us as us
    scales = [si.Kelvin, si.Celsius, us.Fahrenheit, us.Rankine]
    units = scales + [si.Milli * si.Kelvin, si.Kilo * si.Celsius]
    mags = [300, 10, -40, 0, 2.5, Decimal("25")]
    bad, n = [], 0
    for ua in units:
        for ub in units:
            if ua is ub:
                continue
            for ma in mags[:4]:
                for mb in mags:
                    a, b = ma * ua, mb * ub
                    try:
                        b2 = b.in_unit(ua)        # the same temperature written in a's unit
                    except Exception:
                        continue
                    for op, f in (("sub", lambda x, y: x - y), ("add", lambda x, y: x + y)):
                        n += 1
                        try:
                            r1, r2 = f(a, b), f(a, b2)
                        except Exception as ex:
                            bad.append(("scales:%s:raised:%s" % (op, type(ex).__name__), "%r %s %r" % (a, op, b)))
                            continue
                        x, y = float(r1.magnitude), float(r2.magnitude)
                        scale = max(abs(float(ma)), abs(float(b2.magnitude)), 1.0)
                        if r1.unit is not ua or abs(x - y) > 1e-9 * scale:
                            bad.append(("scales:%s:value-depends-on-the-unit-of-the-right-operand" % op,
                                        "%r %s %r gives %r, with the right operand written as %r it gives %r" % (a, op, b, r1, b2, r2)))
    return {"n": n, "bad": bad}


def arith_reexpression(v, prop, seed):
    """C06 on offset scales: a - b and a + b do not change when b is replaced by the equal temperature written in a's
    unit (the library's own conversion does the re-expression; C10 judges that conversion)"""
    from core import run_isolated
    res = run_isolated(_reexpress_child, seed)
    v.impl += res["n"]
    v.evaluations += res["n"]
    v.extra["scale_arithmetic_reexpressions"] = res["n"]
    seen = set()
    for k, d in res["bad"]:
        if k not in seen:
            seen.add(k)
            v.violations.append({"prop": prop, "key": k, "detail": d, "path": []})


def run_c10(tier, seed):
    v = Verdict("C10", tier, seed)
    v.assumptions = ["magnitudes on a rational grid (-500..1000 plus the absolute zeros); prefixes 10^-3, 1, 10^3 (thorough: 10^-6..10^6)",
                     "floats compared at 1e-9 relative with an absolute floor of 1e-6 degrees in the target's unprefixed scale",
                     "equality ties across scales are not judged (rounding), ordering is judged only for distinct kelvin values"]
    res = run_tlc("MC_Temp", wd=workdir("tlc_temp"), env={"VERIF_TTIER": 1 if tier == "quick" else 2}, workers=8, timeout=3000)
    require_ok(res, "MC_Temp")
    v.add_tlc(res, "MC_Temp tier=%s" % tier)
    cases = res.exports.get("E", [])
    if not cases:
        raise MachineryError("no cases exported")
    drv = TempDriver()
    rep = replay_histories([[c] for c in cases], drv, split_depth=1, label="temp_cold")
    order = list(cases)
    random.Random(seed).shuffle(order)
    repw = replay_histories([order[i::8] for i in range(8)] + [list(reversed(order[i::8])) for i in range(8)], drv, split_depth=1, label="temp_warm")
    for r, w in ((rep, ""), (repw, "warm:")):
        v.impl += r["n"]
        v.evaluations += r["n"]
    v.add_violations(rep["mm"])
    cold_keys = {x["key"] for x in rep["mm"]}
    v.add_violations([dict(x, key="warm:" + x["key"]) if x["key"] not in cold_keys else x for x in repw["mm"]])
    v.nontrivial = rep["stats"].get("ok", 0)
    v.exhaustive = True
    v.extra["replay"] = {"cases": len(cases), "cold": rep["stats"], "warm": repw["stats"]}
    v.rule = ("cases = (magnitude, kind, source scale and prefix, target scale and prefix) and cross-scale comparisons enumerated by "
              "TLC; each executed in a fresh fork and again in shared processes in two opposite orders; non-trivial = cases that ran "
              "to a judged result")
    random.Random(seed).shuffle(cases)
    v.samples = cases[:4]
    return v.finish()
