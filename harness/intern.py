"""C20: singletons under concurrency.

Schedules of the REAL code are explored systematically with a line-granularity scheduler
(harness/sched.py); every run yields a call/return history plus the final table, and every
distinct history is validated by TLC against spec/InternAtomic.tla (linearizable get-or-create).
spec/InternShipped.tla (PlusCal) is the mechanism model used for non-vacuity.
"""
import json
import os
import random

from core import (MachineryError, Verdict, parallel_isolated, require_ok, require_violation, run_isolated,
                  run_tlc, workdir)

TARGETS = ["unit_mul", "unit_div", "unit_pow", "unit_root", "unit_pmul", "unit_as_ratio", "dim_mul", "dim_pow",
           "prefix_new", "prefix_mul", "logarithm", "logunit", "quantify", "unit_define"]
# a definition (a NAMED base unit): evaluated a second time it either gives the same unit back or is refused with
# ValueError (the name is taken) - a refused call has no effect and is left out of the history
REFUSABLE = {"unit_define": "ValueError"}


def _setup():
    """runs once in the (forked) parent of all schedule runs: imports and operand creation"""
    import alpha
    m = alpha.measured
    import measured.si as si
    from measured import Length, Mass, Information, Time
    ua = Length.unit("vcunita", "vca")
    ub = Mass.unit("vcunitb", "vcb")
    uc4 = ua ** 4
    urat = (ua ** 2) / (ub ** 2)
    kub = si.Kilo * ub
    ref = 1 * ua
    bodies = {
        "unit_mul": lambda: ua * ub,
        "unit_div": lambda: ua / ub,
        "unit_pow": lambda: ub ** 3,
        "unit_root": lambda: uc4.root(2),
        "unit_pmul": lambda: si.Mega * ua,
        "unit_as_ratio": lambda: urat.as_ratio()[1],
        "dim_mul": lambda: Mass * Information,
        "dim_pow": lambda: Information ** 3,
        "prefix_new": lambda: m.Prefix(10, 7),
        "prefix_mul": lambda: si.Kilo * si.Hecto,
        "logarithm": lambda: m.Logarithm(3.0),
        "logunit": lambda: m.Decibel[ref],
        "quantify": lambda: kub.quantify().unit,
        "unit_define": lambda: Time.unit("vcdefined", "vcdf"),
    }
    return m, bodies


def _table_entry(m, obj):
    """the object the intern table holds for obj's key (alpha reads the class-level table)"""
    if isinstance(obj, m.Unit):
        return m.Unit._known.get(m.Unit._build_key(obj.prefix, obj.factors))
    if isinstance(obj, m.Dimension):
        return m.Dimension._known.get(obj.exponents)
    if isinstance(obj, m.Prefix):
        return m.Prefix._known.get((obj.base, obj.exponent))
    if isinstance(obj, m.Logarithm):
        return m.Logarithm._known.get((obj.base, obj.prefix))
    if isinstance(obj, m.LogarithmicUnit):
        return m.LogarithmicUnit._known.get((obj.logarithm, obj.reference))
    return None


def _run_schedule(item):
    """in a forked child of the prepared parent"""
    target, nthreads, plan = item[:3]
    on_main = item[3] if len(item) > 3 else None
    m, bodies = _STATE
    from sched import LineScheduler
    pkg = os.path.dirname(m.__file__)
    sch = LineScheduler(pkg)
    res = sch.run([bodies[target]] * nthreads, plan, on_main=on_main)
    names = "ABC"
    oids = {}

    def oid(o):
        return oids.setdefault(id(o), len(oids) + 1)
    hist = []
    exc = None
    refused = set()
    for e in res.events:
        if e[0] == "call":
            hist.append({"ev": "call", "thr": names[e[1]], "key": target, "oid": 0})
        else:
            kind, val = e[2]
            if kind != "ok" and REFUSABLE.get(target) == type(val).__name__:
                refused.add(names[e[1]])
                hist.append({"ev": "ret", "thr": names[e[1]], "key": target, "oid": -1})
            elif kind != "ok":
                exc = "%s: %s" % (type(val).__name__, val)
                hist.append({"ev": "ret", "thr": names[e[1]], "key": target, "oid": -1})
            else:
                hist.append({"ev": "ret", "thr": names[e[1]], "key": target, "oid": oid(val)})
    if target in REFUSABLE:
        hist = [h for h in hist if h["thr"] not in refused]
        if not hist:
            exc = "every thread was refused"
        try:
            later = m.Unit.named("vcdefined")
        except Exception as ex:
            later, exc = None, "the defined unit cannot be looked up afterwards: %s" % type(ex).__name__
    else:
        later = bodies[target]()
    entry = _table_entry(m, later) if later is not None else None
    hist.append({"ev": "final", "thr": "", "key": target, "oid": oid(entry) if entry is not None else -2})
    hist.append({"ev": "final", "thr": "", "key": target, "oid": oid(later)})
    return {"hist": hist, "steps": {names[k]: v for k, v in res.steps.items()}, "blocked": res.blocked, "exc": exc}


_STATE = None


def _explore(args):
    """runs in an isolated child: prepares the library once, then forks per schedule"""
    global _STATE
    tier, seed = args
    _STATE = _setup()
    rng = random.Random(seed)
    out = []
    for target in TARGETS:
        base = parallel_isolated(_run_schedule, [(target, 2, [])], procs=1)[0]
        na = max(base["steps"].values() or [1])
        items = []
        # one preemption: A runs i lines, then B runs to completion, then A finishes
        for i in range(0, na + 1):
            items.append((target, 2, [(0, i), (1, 10 ** 6)]))
        # two preemptions: A i lines, B j lines, A to completion, B finishes
        pairs = [(i, j) for i in range(0, na + 1) for j in range(1, na + 1)]
        if tier == "quick" and len(pairs) > 150:
            pairs = rng.sample(pairs, 150)
        for i, j in pairs:
            items.append((target, 2, [(0, i), (1, j), (0, 10 ** 6)]))
        # three threads, one preemption each
        trip = [(i, j) for i in range(0, na + 1) for j in range(0, na + 1)]
        trip = rng.sample(trip, min(len(trip), 40 if tier == "quick" else 600))
        for i, j in trip:
            items.append((target, 3, [(0, i), (1, j), (2, 10 ** 6)]))
        # random (PCT-like) schedules with more switches
        for _ in range(20 if tier == "quick" else 300):
            plan = [(rng.randrange(2), rng.randint(1, 4)) for _ in range(rng.randint(3, 10))]
            items.append((target, 2, plan))
        # one of the threads is the process's MAIN thread (the scheduling moves to a helper thread): every
        # one-preemption schedule both ways round, and random ones
        for i in range(0, na + 1):
            items.append((target, 2, [(0, i), (1, 10 ** 6)], 0))
            items.append((target, 2, [(0, i), (1, 10 ** 6)], 1))
        for _ in range(10 if tier == "quick" else 150):
            plan = [(rng.randrange(2), rng.randint(1, 4)) for _ in range(rng.randint(3, 10))]
            items.append((target, 2, plan, rng.randrange(2)))
        results = parallel_isolated(_run_schedule, items)
        for it, r in zip(items, results):
            r["target"], r["nthreads"], r["plan"] = it[0], it[1], it[2]
            r["on_main"] = it[3] if len(it) > 3 else None
            out.append(r)
    return out


def run_c20(tier, seed):
    v = Verdict("C20", tier, seed)
    v.assumptions = ["schedules at LINE granularity inside the measured package (lru_cache wrappers are opaque single steps)",
                     "all schedules with <= 2 preemptions for 2 threads (sampled in the quick tier), sampled 3-thread and random schedules",
                     "a thread that does not come back within 50 ms is treated as blocked and the scheduler moves on"]
    # design level: the mechanism model as shipped must violate the invariant, the locked variant must not
    nv = run_tlc("MC_InternShipped", wd=workdir("tlc_intern_shipped"), workers=2, timeout=600)
    require_violation(nv, "C20_Single", "InternShipped (check-then-insert, no lock)")
    lk = run_tlc("MC_InternShipped", cfg="MC_InternLocked.cfg", wd=workdir("tlc_intern_locked"), workers=2, timeout=600)
    require_ok(lk, "InternShipped with UseLock")
    v.add_tlc(lk, "InternShipped[UseLock=TRUE]")
    v.extra["nonvacuity"] = {"model": "InternShipped UseLock=FALSE", "violated": nv.violated, "states": nv.distinct}
    runs = run_isolated(_explore, (tier, seed))
    # distinct histories -> TLC
    canon = {}
    for r in runs:
        k = json.dumps(r["hist"], sort_keys=True)
        canon.setdefault(k, []).append(r)
    hists = [json.loads(k) for k in canon]
    wd = workdir("tlc_intern_trace")
    tf = os.path.join(wd, "histories.json")
    json.dump(hists, open(tf, "w"))
    # the histories enter TLC as a literal constant (JsonDeserialize in a definition is re-evaluated on every use)
    data = "---- MODULE InternTraceData ----\nTraceData == <<\n" + ",\n".join(
        "  <<" + ", ".join('[ev |-> "%s", thr |-> "%s", key |-> "%s", oid |-> %d]' % (e["ev"], e["thr"], e["key"], e["oid"])
                           for e in h) + ">>" for h in hists) + "\n>>\n====\n"
    res = run_tlc("MC_InternTrace", wd=wd, workers=4, timeout=1800, overlay={"InternTraceData.tla": data})
    require_ok(res, "MC_InternTrace")
    v.add_tlc(res, "InternAtomic trace validation of %d distinct histories" % len(hists))
    accepted = set(res.exports.get("ACC", []))
    v.impl = len(runs)
    v.evaluations = len(runs)
    v.nontrivial = sum(1 for r in runs if _interleaved(r["hist"]))
    nrej = 0
    for idx, (k, rs) in enumerate(canon.items(), start=1):
        if idx in accepted:
            continue
        nrej += len(rs)
        r = min(rs, key=lambda x: len(x["plan"]))
        shape = _shape(r["hist"])
        v.violations.append({"prop": "C20", "key": "not-linearizable:%s:%s" % (r["target"].split("_")[0], shape),
                             "detail": "target=%s threads=%d plan=%s%s history=%s%s" % (
                                 r["target"], r["nthreads"], r["plan"],
                                 "" if r.get("on_main") is None else " (thread %s is the main thread)" % "ABC"[r["on_main"]],
                                 [(e["ev"], e["thr"], e["oid"]) for e in r["hist"]],
                                 " exception=" + r["exc"] if r["exc"] else ""),
                             "path": [r["target"], r["nthreads"], r["plan"], r.get("on_main")]})
    v.extra["schedules"] = {"runs": len(runs), "distinct_histories": len(hists), "accepted": len(accepted),
                            "rejected_runs": nrej, "runs_with_blocked_thread": sum(1 for r in runs if r["blocked"]),
                            "runs_with_a_thread_on_the_main_thread": sum(1 for r in runs if r.get("on_main") is not None),
                            "targets": TARGETS}
    v.rule = ("cases = schedules executed on the real library under the line scheduler, each giving a call/return history "
              "validated by TLC against InternAtomic; non-trivial = schedules in which a second thread was called before "
              "the first returned (true overlap)")
    rs = random.Random(seed)
    v.samples = [{"target": r["target"], "plan": r["plan"], "history": [(e["ev"], e["thr"], e["oid"]) for e in r["hist"]]}
                 for r in rs.sample(runs, min(4, len(runs)))]
    return v.finish()


def _interleaved(hist):
    open_calls = 0
    for e in hist:
        if e["ev"] == "call":
            open_calls += 1
            if open_calls > 1:
                return True
        elif e["ev"] == "ret":
            open_calls -= 1
    return False


def _shape(hist):
    rets = [e["oid"] for e in hist if e["ev"] == "ret"]
    finals = [e["oid"] for e in hist if e["ev"] == "final"]
    if any(o == -1 for o in rets):
        return "a-thread-raised"
    if len(set(rets)) > 1:
        return "threads-got-different-objects"
    if finals and (finals[0] != rets[0] or finals[1] != rets[0]):
        return "table-or-later-evaluation-differs"
    return "other"
