"""C19: names/symbols bind faithfully, uniquely and atomically (spec/Names.tla, MC_Names, import traces)."""
import json
import os
import random
import subprocess
import sys

from core import MachineryError, PY, REPO, VERIF, Verdict, replay_histories, require_ok, run_tlc, workdir
from registry import graph_histories

NAME = {"na": "vnamealpha", "nb": "vnamebeta"}
SYM = {"sa": "vsya", "sb": "vsyb", "s c": "vs yc", "#5": 5, "na": "vnamealpha", "s~c": "vs\tyd", "so": "vsy\u2126"}


class NamesDriver:
    SPEC = "names:NamesDriver"

    def __init__(self, props=("C19",)):
        self.kwargs = {"props": list(props)}

    def prepare(self):
        import alpha
        self.m = alpha.measured
        self.pexp = {"p7": 7, "p8": 8, "p0": 0}
        import measured.si as si        # imported HERE, once: importing it registers the SI names and symbols
        self.si = si

    def fresh_ctx(self):
        return {"obj": {}}

    def _snapshot(self):
        m = self.m
        return {"uname": dict(m.Unit._by_name), "usym": dict(m.Unit._by_symbol), "pname": dict(m.Prefix._by_name),
                "psym": dict(m.Prefix._by_symbol), "nknown": len(m.Unit._known), "npref": len(m.Prefix._known),
                "dname": dict(m.Dimension._by_name), "ndim": len(m.Dimension._known), "nfund": len(m.Dimension._fundamental),
                "dobjs": {id(d): (d.name, d.symbol) for d in m.Dimension._known.values()},
                "objs": {id(u): (u.names, u.symbols) for u in m.Unit._known.values()},
                "pobjs": {id(p): (p.name, p.symbol) for p in m.Prefix._known.values()}}

    def apply(self, ev, ctx, stats):
        m = self.m
        mm = []
        op, c, k = ev["op"], ev["c"], ev["k"]
        n = NAME.get(ev["n"]) if ev["n"] else None
        s = SYM.get(ev["s"]) if ev["s"] else None
        stats["op:" + op] = stats.get("op:" + op, 0) + 1
        if op == "lookup":
            return self._lookup(ev, ctx, stats)
        if op in ("snap", "restore"):
            return self._snap_restore(ev, ctx, stats)
        before = self._snapshot()
        out, exc = "ok", None
        try:
            if op == "anon":
                if c == "unit":
                    ctx["obj"][k] = ctx["obj"]["u1"] ** 2
                elif c == "dimension" and k == "d2":
                    # the exponents the NEXT fundamental dimension will be given, as an anonymous dimension
                    w = len(m.Number.exponents)
                    ctx["obj"][k] = m.Dimension(tuple([0] * (w - 1) + [1]))
                elif c == "dimension":
                    ctx["obj"][k] = m.Length ** 5 / m.Time ** 7       # nobody named this one
                else:
                    ctx["obj"][k] = m.Prefix(10, self.pexp[k])
            elif op == "define":
                ctx["obj"][k] = m.Length.unit(n, s)
            elif op == "scale":
                ctx["obj"][k] = m.Temperature.scale(5 * self.si.Kelvin, n, s)
            elif op == "scale-q":
                ctx["obj"][k] = m.Temperature.scale(5 * self.si.Meter, n, s)        # a zero point of another dimension
            elif op == "derive":
                m.Unit.derive(ctx["obj"][k], n, s)
            elif op == "alias":
                ctx["obj"][k].alias(name=n, symbol=s)
            elif op == "named":
                ctx["obj"][k] = m.Prefix(10, self.pexp[k], name=n, symbol=s)
            elif op == "dim-define":
                ctx["obj"][k] = m.Dimension.define(n, "VD" + k)
            elif op == "dim-derive":
                m.Dimension.derive(ctx["obj"][k], n, "VX" + k)
            else:
                raise MachineryError(op)
        except MachineryError:
            raise
        except KeyError as ex:
            if k not in ctx["obj"]:
                return [{"prop": "DRIFT", "key": "object-missing", "detail": "no object for %s (an earlier define diverged)" % k}]
            out, exc = "error", ex
        except Exception as ex:
            out, exc = "error", ex
        after = self._snapshot()
        tag = "%s-%s" % (c, op)
        argshape = "name=%s,symbol=%s" % ("none" if not ev["n"] else "given", "none" if not ev["s"] else ("malformed" if ev["s"] in ("s c", "#5") else "given"))
        if out != ev["out"] and (ev["s"] == "s~c" or op == "scale-q") and not self._taken(ev, before, ctx):
            # a questionable symbol: TLC explores both the accepting and the refusing branch; this is the other one.
            # Atomicity / faithful binding are still judged below according to what the library actually did.
            stats["maybe-branch-not-taken"] = stats.get("maybe-branch-not-taken", 0) + 1
            ev = dict(ev, out=out)
        if out != ev["out"]:
            if ev["out"] == "error":
                why = self._why(ev)
                mm.append(self._mm("%s:accepted-invalid:%s" % (tag, why), "%s(%s, name=%r, symbol=%r) succeeded although %s" % (op, k, n, s, why)))
            else:
                mm.append(self._mm("%s:rejected-valid:%s" % (tag, type(exc).__name__), "%s(%s, name=%r, symbol=%r) raised %r" % (op, k, n, s, exc)))
        if out == "error":
            stats["failed-calls"] = stats.get("failed-calls", 0) + 1
            changed = [f for f in ("uname", "usym", "pname", "psym", "dname") if before[f] != after[f]]
            if before["dobjs"] != {i: v for i, v in after["dobjs"].items() if i in before["dobjs"]}:
                changed.append("dimension.name/symbol")
            if before["objs"] != {i: v for i, v in after["objs"].items() if i in before["objs"]}:
                changed.append("unit.names/symbols")
            if changed:
                mm.append(self._mm("%s:failed-call-changed:%s:%s" % (tag, "+".join(changed), argshape),
                                   "%s(%s, name=%r, symbol=%r) raised %s but changed %s" % (op, k, n, s, type(exc).__name__, changed)))
            if after["nknown"] != before["nknown"] or after["npref"] != before["npref"] or after["ndim"] != before["ndim"] or after["nfund"] != before["nfund"]:
                mm.append(self._mm("%s:failed-call-left-orphan-intern-entry:%s" % (tag, argshape),
                                   "%s(%s, name=%r, symbol=%r) raised but the intern table grew" % (op, k, n, s)))
        elif out == "ok" and ev["out"] == "ok" and op != "anon":
            stats["declared"] = stats.get("declared", 0) + 1
            obj = ctx["obj"].get(k)
            tabn = m.Unit._by_name if c == "unit" else m.Dimension._by_name if c == "dimension" else m.Prefix._by_name
            tabs = m.Unit._by_symbol if c == "unit" else {} if c == "dimension" else m.Prefix._by_symbol
            earlier = "object-existed-anonymously" if self._was_anon(ev, before, obj) else "object-new-or-named"
            if n is not None:
                if tabn.get(n) is not obj:
                    mm.append(self._mm("%s:name-not-bound:%s" % (tag, earlier), "after %s(%s, name=%r) lookup by name gives %r" % (op, k, n, tabn.get(n))))
                rep = obj.names if c == "unit" else (obj.name,)
                if n not in rep:
                    mm.append(self._mm("%s:name-not-reported:%s" % (tag, earlier), "after %s(%s, name=%r) the object reports names %r" % (op, k, n, rep)))
            if s is not None:
                if tabs.get(s) is not obj:
                    mm.append(self._mm("%s:symbol-not-bound:%s" % (tag, earlier), "after %s(%s, symbol=%r) lookup by symbol gives %r" % (op, k, s, tabs.get(s))))
                rep = obj.symbols if c == "unit" else (obj.symbol,)
                if s not in rep:
                    mm.append(self._mm("%s:symbol-not-reported:%s" % (tag, earlier), "after %s(%s, symbol=%r) the object reports symbols %r" % (op, k, s, rep)))
        # uniqueness: no key of a lookup table ever changes its value
        for f in ("uname", "usym", "pname", "psym", "dname"):
            for key, val in before[f].items():
                if key in after[f] and after[f][key] is not val:
                    mm.append(self._mm("%s:rebound:%s" % (tag, f), "%r was bound to %r and is now bound to %r" % (key, val, after[f][key])))
                elif key not in after[f]:
                    mm.append(self._mm("%s:unbound:%s" % (tag, f), "%r is no longer bound" % (key,)))
        return mm

    def _snap_restore(self, ev, ctx, stats):
        """pickle an object now / load that pickle later: no registry and nothing an object reports may change"""
        import pickle
        c, k = ev["c"], ev["k"]
        obj = ctx["obj"].get(k)
        if obj is None:
            return [{"prop": "DRIFT", "key": "object-missing", "detail": k}]
        if ev["op"] == "snap":
            ctx.setdefault("blob", {})[(c, k, ev["s"])] = pickle.dumps(obj)
            return []
        before = self._snapshot()
        try:
            got = pickle.loads(ctx["blob"][(c, k, ev["s"])])
        except Exception as ex:
            return [self._mm("%s-restore:raised:%s" % (c, type(ex).__name__), "loading an earlier pickle of %s" % k)]
        after = self._snapshot()
        stats["restores"] = stats.get("restores", 0) + 1
        mm = []
        if got is not obj:
            mm.append(self._mm("%s-restore:another-object" % c, "the pickle of %s loaded as another object" % k))
        changed = [f for f in ("uname", "usym", "pname", "psym", "dname") if before[f] != after[f]]
        for f, what in (("objs", "unit.names/symbols"), ("pobjs", "prefix.name/symbol"), ("dobjs", "dimension.name/symbol")):
            if before[f] != {i: v for i, v in after[f].items() if i in before[f]}:
                changed.append(what)
        if changed:
            mm.append(self._mm("%s-restore:rewound:%s" % (c, "+".join(changed)),
                               "loading a pickle of %s taken before later declarations changed %s (the object now reports %r)" % (
                                   k, changed, (getattr(obj, "names", None) or getattr(obj, "name", None), getattr(obj, "symbols", None) or getattr(obj, "symbol", None)))))
        return mm

    def _lookup(self, ev, ctx, stats):
        m = self.m
        sym = SYM[ev["s"]] if ev["c"] != "dimension" else NAME[ev["s"]]
        stats["lookups"] = stats.get("lookups", 0) + 1
        res = []
        for _ in range(2):
            try:
                if ev["c"] == "dimension":
                    r = m.Dimension.named(sym)
                else:
                    r = (m.Unit if ev["c"] == "unit" else m.Prefix).resolve_symbol(sym)
            except KeyError:
                r = None
            except Exception as ex:
                return [self._mm("%s-lookup:raised:%s" % (ev["c"], type(ex).__name__), "resolve_symbol(%r)" % sym)]
            res.append(r)
        want = ctx["obj"].get(ev["k"]) if ev["k"] != "unbound" else None
        if ev["k"] != "unbound" and want is None:
            return [{"prop": "DRIFT", "key": "object-missing", "detail": ev["k"]}]
        mm = []
        if res[0] is not want:
            mm.append(self._mm("%s-lookup:wrong-object:%s" % (ev["c"], "expected-unbound" if want is None else "expected-bound"),
                               "resolve_symbol(%r) returned %r, the registries bind it to %r" % (sym, res[0], want)))
        if res[0] is not res[1]:
            mm.append(self._mm("%s-lookup:repeat-differs" % ev["c"], "resolve_symbol(%r) gave %r then %r" % (sym, res[0], res[1])))
        return mm

    def _taken(self, ev, before, ctx):
        """is the declared name or symbol already bound to ANOTHER object (then refusal is mandatory, whatever the symbol)"""
        obj = ctx["obj"].get(ev["k"])
        n = NAME.get(ev["n"]) if ev["n"] else None
        s = SYM.get(ev["s"]) if ev["s"] else None
        tn, ts = ("uname", "usym") if ev["c"] == "unit" else ("dname", "usym") if ev["c"] == "dimension" else ("pname", "psym")
        return (n is not None and n in before[tn] and before[tn][n] is not obj) or (isinstance(s, str) and s in before[ts] and before[ts][s] is not obj)

    def _was_anon(self, ev, before, obj):
        if obj is None:
            return False
        if ev["c"] == "unit":
            return id(obj) in before["objs"] and not before["objs"][id(obj)][0] and not before["objs"][id(obj)][1]
        if ev["c"] == "dimension":
            return id(obj) in before["dobjs"] and before["dobjs"][id(obj)][0] is None
        return id(obj) in before["pobjs"] and before["pobjs"][id(obj)] == (None, None)

    def _why(self, ev):
        if ev["s"] in ("s c", "#5"):
            return "the symbol is malformed (%s)" % ("contains a space" if ev["s"] == "s c" else "is not a string")
        return "the name or symbol is already bound to another object"

    def _mm(self, key, detail):
        return {"prop": "C19", "key": key, "detail": detail}


def run_c19(tier, seed):
    v = Verdict("C19", tier, seed)
    v.assumptions = ["universe: two definable base units, one anonymous compound unit, two prefixes, two names, two symbols, two malformed symbols",
                     "a failing call may raise any exception; the registries compared are Unit/Prefix _by_name/_by_symbol and the names/symbols objects report; orphan intern-table entries are a separate clause",
                     "import-order configurations are run in real subprocesses and their declaration traces validated by TLC"]
    depth = 3 if tier == "quick" else 4
    res = run_tlc("MC_Names", wd=workdir("tlc_names"), env={"VERIF_DEPTH": depth}, workers=8, timeout=3000)
    require_ok(res, "MC_Names")
    v.add_tlc(res, "MC_Names depth=%d" % depth)
    trans = res.exports.get("T", [])
    hists, nstates = graph_histories(trans, res.exports.get("I", []))
    rep = replay_histories(hists, NamesDriver(), split_depth=2, label="names")
    v.impl += rep["n"]
    v.evaluations += rep["n"]
    v.nontrivial += rep["stats"].get("declared", 0) + rep["stats"].get("failed-calls", 0)
    v.add_violations(rep["mm"])
    v.exhaustive = True
    v.extra["replay"] = {"transitions": len(trans), "spec_states": nstates, "executed": rep["n"], "stats": rep["stats"]}
    # the dimension registry on its own: define / derive / named in every order
    dres = run_tlc("MC_Names", wd=workdir("tlc_names_dims"), env={"VERIF_DEPTH": 3 if tier == "quick" else 4, "VERIF_DIMS": 1}, workers=4, timeout=3000)
    require_ok(dres, "MC_Names[dimensions]")
    v.add_tlc(dres, "MC_Names[dimensions]")
    dtrans = dres.exports.get("T", [])
    dh, dstates = graph_histories(dtrans, dres.exports.get("I", []))
    drep = replay_histories(dh, NamesDriver(), split_depth=2, label="names_dims")
    v.impl += drep["n"]
    v.evaluations += drep["n"]
    v.nontrivial += drep["stats"].get("declared", 0) + drep["stats"].get("failed-calls", 0)
    v.add_violations(drep["mm"])
    v.extra["replay_dimensions"] = {"transitions": len(dtrans), "spec_states": dstates, "executed": drep["n"], "stats": drep["stats"]}
    # snapshots: pickle an object, declare more names, load the pickle
    sres = run_tlc("MC_Names", wd=workdir("tlc_names_snap"), env={"VERIF_DEPTH": 4 if tier == "quick" else 6, "VERIF_DIMS": 2}, workers=4, timeout=3000)
    require_ok(sres, "MC_Names[snapshots]")
    v.add_tlc(sres, "MC_Names[snapshots]")
    strans = sres.exports.get("T", [])
    sh, sstates = graph_histories(strans, sres.exports.get("I", []))
    srep = replay_histories(sh, NamesDriver(), split_depth=2, label="names_snap")
    v.impl += srep["n"]
    v.evaluations += srep["n"]
    v.nontrivial += srep["stats"].get("restores", 0)
    v.add_violations(srep["mm"])
    v.extra["replay_snapshots"] = {"transitions": len(strans), "spec_states": sstates, "executed": srep["n"], "stats": srep["stats"]}
    import_traces(v, tier, seed)
    v.rule = ("cases = transitions of the TLC state graph of MC_Names (declaring and anonymous calls in every order, valid and invalid), one "
              "real execution each; plus declaration traces of the shipped modules under several import orders validated by TLC; "
              "non-trivial = declaring calls that succeeded or failed (anonymous constructions excluded)")
    random.Random(seed).shuffle(hists)
    v.samples = [[{k: e[k] for k in ("op", "c", "k", "n", "s", "out")} for e in h] for h in hists[:3]]
    return v.finish()


MODULES = ["si", "us", "avoirdupois", "troy", "energy", "astronomical", "natural", "metric", "iec", "iso", "eu", "fff",
           "apocrypha", "computing", "acoustics", "electronics", "music", "physics", "geometry"]


def import_orders(tier, seed):
    rng = random.Random(seed)
    orders = [list(MODULES)]
    for first in MODULES[: 6 if tier == "quick" else len(MODULES)]:
        orders.append([first] + [x for x in MODULES if x != first])
    for _ in range(2 if tier == "quick" else 12):
        o = list(MODULES)
        rng.shuffle(o)
        orders.append(o)
    return orders


def import_traces(v, tier, seed):
    """code -> spec: record every declaring call made while importing the shipped modules (in a real subprocess per import
    order), then let TLC check the recorded history against Names (C19_Bound, C19_Declared, C19_Unique)."""
    wd = workdir("names_imports")
    orders = import_orders(tier, seed)
    procs = []
    probes = os.path.join(wd, "probes.json")
    env0 = dict(os.environ, PYTHONPATH=os.path.join(REPO, "src"), PYTHONDONTWRITEBYTECODE="1", MEASURED_VERIF="1")
    p0 = subprocess.run([PY, os.path.join(VERIF, "harness", "names_recorder.py"), probes, "--list-probes"], env=env0,
                        stdout=subprocess.PIPE, stderr=subprocess.STDOUT, text=True)
    if p0.returncode != 0:
        raise MachineryError("probe listing failed:\n" + p0.stdout[-2000:])
    v.extra["lookup_probes"] = json.load(open(probes))
    for i, order in enumerate(orders):
        out = os.path.join(wd, "trace%d.json" % i)
        env = dict(env0, VERIF_PROBES=probes)
        procs.append((i, order, out, subprocess.Popen([PY, os.path.join(VERIF, "harness", "names_recorder.py"), out] + order, env=env,
                                                      stdout=subprocess.PIPE, stderr=subprocess.STDOUT, text=True)))
    traces = []
    for i, order, out, p in procs:
        o, _ = p.communicate(timeout=600)
        if p.returncode != 0 or not os.path.exists(out):
            raise MachineryError("import recorder failed for order %s:\n%s" % (order[:3], o[-2000:]))
        traces.append(json.load(open(out)))
    # TLC validation of the recorded declaration histories
    data = _trace_module(traces)
    res = run_tlc("MC_NamesTrace", wd=workdir("tlc_names_trace"), workers=4, timeout=3000, overlay={"NamesTraceData.tla": data})
    if res.errors:
        raise MachineryError("MC_NamesTrace failed: %s" % res.errors[:2])
    v.add_tlc(res, "MC_NamesTrace: %d import-order traces, %d events" % (len(traces), sum(len(t["events"]) for t in traces)))
    v.impl += len(traces)
    v.extra["import_traces"] = {"orders": len(orders), "events": sum(len(t["events"]) for t in traces), "tlc_violated": res.violated}
    reports = res.exports.get("BAD", [])
    seen = set()
    for r in reports:
        key = "shipped-declarations:%s:%s:%s" % (r["clause"], r["c"], r["what"])
        if key in seen:
            continue
        seen.add(key)
        v.violations.append({"prop": "C19", "key": key, "detail": "import order #%d (%s first): event %d %s" % (
            r["t"], orders[r["t"] - 1][0], r["i"], json.dumps(r["ev"], ensure_ascii=False)), "path": [orders[r["t"] - 1], r["i"]]})
    v.nontrivial += sum(1 for t in traces for e in t["events"] if e["op"] != "anon")


def _tla_str(s):
    return '"' + str(s).replace("\\", "\\\\").replace('"', '\\"') + '"'


def _trace_module(traces):
    rows = []
    for t in traces:
        evs = ", ".join('[op |-> %s, c |-> %s, k |-> %s, n |-> %s, s |-> %s, out |-> %s, bn |-> %s, bs |-> %s, rn |-> %s, rs |-> %s]' % (
            _tla_str(e["op"]), _tla_str(e["c"]), _tla_str(e["k"]), _tla_str(e["n"]), _tla_str(e["s"]), _tla_str(e["out"]),
            _tla_str(e["bn"]), _tla_str(e["bs"]), "TRUE" if e["rn"] else "FALSE", "TRUE" if e["rs"] else "FALSE") for e in t["events"])
        rows.append("  <<" + evs + ">>")
    return "---- MODULE NamesTraceData ----\nNTraces == <<\n" + ",\n".join(rows) + "\n>>\n====\n"
