"""C14: uncertainty propagation (spec/Uncertainty.tla, MC_Uncertainty)."""
import random
from decimal import Decimal
from fractions import Fraction

from core import MachineryError, Verdict, replay_histories, require_ok, run_tlc, workdir
from quantities import QuantDriver, frac, pvf


class UncDriver(QuantDriver):
    SPEC = "uncertainty:UncDriver"

    def prepare(self):
        self.sys.setdefault("scalars", [])
        super().prepare()
        m = self.m
        self.meas = []
        for rec in self.sys["meas"]:
            q = self.pool[rec["q"] - 1]
            sfr = frac(rec["s"])
            unc = (Decimal(sfr.numerator) / Decimal(sfr.denominator)) if isinstance(q.magnitude, Decimal) else float(sfr)
            self.meas.append(q if rec["plain"] else m.Measurement(q, unc))

    def apply(self, ev, ctx, stats):
        m = self.m
        op = ev["op"]
        a = self.meas[ev["i"] - 1]
        arec = self.sys["meas"][ev["i"] - 1]
        b = brec = None
        if op != "pow":
            b, brec = self.meas[ev["j"] - 1], self.sys["meas"][ev["j"] - 1]
        desc = "%s(%s%s)" % (op, self._m(arec), (", " + self._m(brec)) if brec else ", %d" % ev["n"])
        shape = "%s:%s%s" % (op, "quantity" if arec["plain"] else "measurement", ("-" + ("quantity" if brec["plain"] else "measurement")) if brec else "")
        zero = frac(self.sys["pool"][arec["q"] - 1]["m"]) == 0 or (brec is not None and frac(self.sys["pool"][brec["q"] - 1]["m"]) == 0)
        f = {"add": lambda: a + b, "sub": lambda: a - b, "mul": lambda: a * b, "div": lambda: a / b, "pow": lambda: a ** ev["n"]}[op]
        try:
            r = f()
        except self.conv.ConversionNotFound:
            stats["unconvertible"] = stats.get("unconvertible", 0) + 1
            return []
        except Exception as ex:
            return [self._mm("C14", "%s:raised:%s%s" % (shape, type(ex).__name__, ":zero-measurand" if zero else ""), "%s raised %r" % (desc, ex))]
        stats["ok"] = stats.get("ok", 0) + 1
        mm = []
        if not isinstance(r, m.Measurement):
            return [self._mm("C14", "%s:result-type:%s" % (shape, type(r).__name__), "%s gave %r" % (desc, r))]
        size = self.usize(r.measurand.unit)
        if size is None:
            return [{"prop": "DRIFT", "key": "foreign-unit", "detail": desc}]
        want = frac(ev["phys"]["r"]) * pvf(ev["phys"]["pv"])
        got = Fraction(r.measurand.magnitude) * size
        scale = max(abs(got), abs(want), Fraction(1, 10 ** 9))
        if op in ("add", "sub"):
            # rounding is relative to the operands, not to a difference that may cancel to ~0
            for rec in (arec, brec):
                q = self.sys["pool"][rec["q"] - 1]
                scale = max(scale, abs(frac(q["m"]) * self.usize(self.pool[rec["q"] - 1].unit)))
        if got != want and abs(got - want) > Fraction(1e-12) * scale:
            mm.append(self._mm("C14", "%s:measurand" % shape, "%s: measurand SI value %s, expected %s" % (desc, float(got), float(want))))
        if r.uncertainty.unit is not r.measurand.unit:
            mm.append(self._mm("C14", "%s:uncertainty-unit" % shape, "%s: uncertainty in %s, measurand in %s" % (desc, r.uncertainty.unit, r.measurand.unit)))
        um = r.uncertainty.magnitude
        if um < 0:
            mm.append(self._mm("C14", "%s:negative-uncertainty" % shape, "%s: uncertainty %r" % (desc, um)))
        wantv = frac(ev["var"]["r"]) * pvf(ev["var"]["pv"]) + frac(ev["var2"]["r"]) * pvf(ev["var2"]["pv"])
        gotv = (Fraction(um) * size) ** 2
        scale = max(abs(gotv), abs(wantv))
        if gotv != wantv and abs(gotv - wantv) > Fraction(1e-9) * scale + Fraction(1, 10 ** 18):
            cls = "pow-exponent-%d" % ev["n"] if op == "pow" else ("zero-uncertainty-result-expected" if wantv == 0 else "formula")
            mm.append(self._mm("C14", "%s:variance:%s" % (shape, cls), "%s: uncertainty^2 (SI) = %s, first-order propagation gives %s" % (desc, float(gotv), float(wantv))))
        return mm

    def _m(self, rec):
        q = self.sys["pool"][rec["q"] - 1]
        u = q["u"]
        s = ".".join("%s^%d" % (k, e) for k, e in sorted(u["f"].items()) if e) or "1"
        return "%s/%s %s%s%s" % (q["m"][0], q["m"][1], "10^%d " % u["p10"] if u["p10"] else "", s, "" if rec["plain"] else " +/- %s/%s" % tuple(rec["s"]))


def run_c14(tier, seed):
    v = Verdict("C14", tier, seed)
    v.assumptions = ["measurands on a small rational grid including zero and negatives; uncertainties {0, 1/2, (1,) 2}; three length units (one prefixed) and a time unit",
                     "variance compared at 1e-9 relative (the code takes a float square root)", "exponents -4..4", "magnitudes are floats in the enumeration; the same cases are re-instantiated with Decimal and with mixed Decimal/float magnitudes"]
    res = run_tlc("MC_Uncertainty", wd=workdir("tlc_unc"), env={"VERIF_UPOOL": 1 if tier == "quick" else 2}, workers=8, timeout=3000)
    require_ok(res, "MC_Uncertainty")
    v.add_tlc(res, "MC_Uncertainty")
    system = res.exports["SYS"][0]
    cases = res.exports.get("E", [])
    if not cases:
        raise MachineryError("no cases")
    drv = UncDriver(system=system, props=("C14",))
    rep = replay_histories([[c] for c in cases], drv, split_depth=1, label="unc_cold")
    order = list(cases)
    random.Random(seed).shuffle(order)
    repw = replay_histories([order[i::8] for i in range(8)] + [list(reversed(order[i::8])) for i in range(8)], drv, split_depth=1, label="unc_warm")
    v.impl = rep["n"] + repw["n"]
    v.evaluations = v.impl
    v.nontrivial = rep["stats"].get("ok", 0)
    v.add_violations(rep["mm"])
    cold = {x["key"] for x in rep["mm"]}
    v.add_violations([dict(x, key="warm:" + x["key"]) if x["key"] not in cold else x for x in repw["mm"]])
    # the same cases written with Decimal magnitudes and uncertainties (all of them, or every other operand: Decimal with float)
    import copy
    kinds_stats = {}
    for label, pick in (("decimal", lambda i: True), ("mixed", lambda i: i % 2 == 0)):
        sysk = copy.deepcopy(system)
        for i, q in enumerate(sysk["pool"]):
            if pick(i):
                q["k"] = "Decimal"
        sub = list(cases)
        random.Random(seed + 1).shuffle(sub)
        if tier == "quick":
            sub = sub[:3000]
        repk = replay_histories([sub[i::8] for i in range(8)], UncDriver(system=sysk, props=("C14",)), split_depth=1, label="unc_" + label)
        v.impl += repk["n"]
        v.evaluations += repk["n"]
        v.add_violations([dict(x, key=label + ":" + x["key"]) if x["key"] not in cold else x for x in repk["mm"]])
        kinds_stats[label] = repk["stats"]
    v.exhaustive = True
    v.extra["replay"] = {"cases": len(cases), "cold": rep["stats"], "warm": repw["stats"], "kinds": kinds_stats}
    v.rule = ("cases = (operator, operands) over measurements and plain quantities enumerated by TLC with the exact variance; each executed in a "
              "fresh fork and again in shared processes in two orders; non-trivial = cases that returned a Measurement")
    random.Random(seed).shuffle(cases)
    v.samples = [{k: c[k] for k in ("op", "i", "j", "n", "phys", "var")} for c in cases[:4]]
    return v.finish()
