"""The seed units of MC_Registry (MCSeeds), for runs that do not export them (simulation)."""


def seeds_for(universe):
    bases = ["b1", "b2", "b3"] + (["b4"] if universe == 2 else [])

    def s2(x, e1, y, e2, p):
        f = {b: 0 for b in bases}
        f[x] = e1
        if e2:
            f[y] = e2
        return {"p": p, "f": f}
    return [s2("b1", 2, "b2", 0, 0), s2("b1", 2, "b2", 0, 3), s2("b1", 1, "b2", -1, 0), s2("b1", 2, "b2", -2, 0),
            s2("b3", 1, "b1", -1, 0), s2("b3", -1, "b1", 0, 0), s2("b1", 1, "b2", 0, 3), s2("b1", 0, "b2", 0, 6)]
