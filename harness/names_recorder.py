"""Records every declaring call made while the shipped unit modules are imported (monkeypatching from outside the
repository, enabled only under MEASURED_VERIF=1).  usage: names_recorder.py out.json module [module ...]

An event is written AFTER the call returned or raised:
  op (define/derive/alias/named/anon), class, object key, name, symbol, outcome,
  bn / bs = the key of the object the name / symbol is bound to after the call ("" if unbound),
  rn / rs = whether the object reports the name / symbol after the call.
Object keys are stable structural strings (not ids), so traces from different import orders are comparable."""
import importlib
import json
import os
import sys

assert os.environ.get("MEASURED_VERIF") == "1"
import measured  # noqa: E402
from measured import Prefix, Unit  # noqa: E402

events = []


def pkey(p):
    return "P(%s,%s)" % (p.base, p.exponent)


def ukey(u):
    try:
        fs = sorted((f.names[0] if f.names else "anon%x" % id(f), e) for f, e in u.factors.items())
    except Exception:
        fs = [("?", 0)]
    own = u.names[0] if (u.names and len(u.factors) == 1 and next(iter(u.factors)) is u) else None
    return "U(%s|%s)" % (pkey(u.prefix), own or ".".join("%s^%d" % fe for fe in fs))


def bound(tab, key, keyf):
    o = tab.get(key) if isinstance(key, str) else None
    return keyf(o) if o is not None else ""


def record(op, c, obj, n, s, out):
    keyf = ukey if c == "unit" else pkey
    tn, ts = (Unit._by_name, Unit._by_symbol) if c == "unit" else (Prefix._by_name, Prefix._by_symbol)
    if obj is None:
        k, rn, rs = "", False, False
    else:
        k = keyf(obj)
        rn = (n in obj.names) if c == "unit" else (obj.name == n)
        rs = (s in obj.symbols) if c == "unit" else (obj.symbol == s)
    events.append({"op": op, "c": c, "k": k, "n": n or "", "s": s or "", "out": out,
                   "bn": bound(tn, n, keyf) if n else "", "bs": bound(ts, s, keyf) if s else "", "rn": bool(rn), "rs": bool(rs)})


depth = [0]
_alias = Unit.alias


def alias(self, name=None, symbol=None):
    depth[0] += 1
    try:
        r = _alias(self, name=name, symbol=symbol)
        out = "ok"
        return r
    except Exception:
        out = "error"
        raise
    finally:
        depth[0] -= 1
        if depth[0] == 0 and (name or symbol) and getattr(self, "_initialized", True):
            record("alias", "unit", self, name, symbol, out)


Unit.alias = alias
_define = Unit.define.__func__


def define(cls, dimension, name, symbol):
    depth[0] += 1
    obj, out = None, "error"
    try:
        obj = _define(cls, dimension, name, symbol)
        out = "ok"
        return obj
    finally:
        depth[0] -= 1
        if depth[0] == 0:
            record("define", "unit", obj if obj is not None else Unit._by_name.get(name), name, symbol, out)


Unit.define = classmethod(define)
_pinit = Prefix.__init__


def pinit(self, base, exponent, name=None, symbol=None):
    was = getattr(self, "_initialized", False)
    _pinit(self, base, exponent, name, symbol)
    if name or symbol:
        record("named", "prefix", self, name, symbol, "ok")
    elif not was:
        record("anon", "prefix", self, None, None, "ok")


Prefix.__init__ = pinit

out_file, mods = sys.argv[1], sys.argv[2:]
probes = []
if os.environ.get("VERIF_PROBES") and os.path.exists(os.environ["VERIF_PROBES"]):
    probes = json.load(open(os.environ["VERIF_PROBES"]))


def probe():
    """lookups by symbol, as a user (or the parser) would do at this point of the import sequence"""
    for sym in probes:
        try:
            u = Unit.resolve_symbol(sym)
            k = ukey(u)
        except KeyError:
            k = ""
        events.append({"op": "lookup", "c": "unit", "k": k, "n": "", "s": sym, "out": "ok", "bn": "", "bs": "", "rn": False, "rs": False})


if mods and mods[0] == "--list-probes":
    # phase 0: import everything, then list the symbols that could resolve BEFORE their own declaration
    import measured.systems  # noqa: F401
    psyms = [s for s in Prefix._by_symbol]
    cand = []
    for s in Unit._by_symbol:
        split = any(s.startswith(p) and s[len(p):] in Unit._by_symbol for p in psyms if len(p) < len(s))
        if split or s in Unit._by_name:
            cand.append(s)
    json.dump(sorted(cand), open(out_file, "w"))
    sys.exit(0)

for mod in mods:
    probe()
    importlib.import_module("measured." + mod)
probe()
# final check events: every binding present now is reported faithfully
json.dump({"order": mods, "events": events}, open(out_file, "w"))
