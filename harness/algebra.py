"""Dimensions and prefixes as canonical abelian groups (spec/Algebra.tla): part of C02, prefix half of C11."""
import os
import random
import sys

from core import MachineryError, REPO, replay_histories, require_ok, run_isolated, run_tlc, workdir


def tables(_):
    sys.path.insert(0, os.path.join(REPO, "src"))
    import measured
    import measured.systems  # noqa: F401
    from measured import Dimension, Prefix
    dims = [d for d in Dimension._by_name.values()]
    # a few anonymous ones as well (products of named ones)
    seen, out = set(), []
    for d in dims + [measured.Length * measured.Information, measured.Mass / measured.Charge ** 2]:
        if id(d) not in seen:
            seen.add(id(d))
            out.append(list(d.exponents))
    # every prefix the shipped modules intern with an integer exponent, registered or anonymous (e.g. 2^3 of the byte)
    prefixes = sorted({(p.base, p.exponent) for p in Prefix._known.values() if isinstance(p.exponent, int) and p.base != 0 and abs(p.exponent) <= 80})
    return {"dims": out, "prefixes": [[0, 0]] + [list(p) for p in prefixes]}


def data_module(t):
    return ("---- MODULE AlgebraData ----\nEXTENDS Integers\nDDims == << %s >>\nDPrefixes == << %s >>\n====\n" % (
        ", ".join("<<" + ", ".join(str(x) for x in d) + ">>" for d in t["dims"]),
        ", ".join("<<%d, %d>>" % (p[0], p[1]) for p in t["prefixes"])))


class AlgebraDriver:
    SPEC = "algebra:AlgebraDriver"

    def __init__(self, tables=None, props=("C02", "C11")):
        self.kwargs = {"tables": tables, "props": list(props)}
        self.t = tables
        self.props = set(props)

    def prepare(self):
        import alpha
        self.m = m = alpha.measured
        import measured.systems  # noqa: F401
        self.dims = [m.Dimension(tuple(d)) for d in self.t["dims"]]
        self.pre = [m.Prefix(p[0], p[1]) for p in self.t["prefixes"]]

    def fresh_ctx(self):
        return {}

    def apply(self, ev, ctx, stats):
        m = self.m
        op, n = ev["op"], ev["n"]
        mm = []
        stats["op:" + op] = stats.get("op:" + op, 0) + 1
        try:
            if op[0] == "d":
                a = self.dims[ev["i"] - 1]
                b = self.dims[ev["j"] - 1] if ev["j"] else None
                r = {"dmul": lambda: a * b, "ddiv": lambda: a / b, "dpow": lambda: a ** n, "droot": lambda: a.root(n)}[op]()
            else:
                a = self.pre[ev["i"] - 1]
                b = self.pre[ev["j"] - 1] if ev["j"] else None
                r = {"pmul": lambda: a * b, "pdiv": lambda: a / b, "ppow": lambda: a ** n, "proot": lambda: a.root(n),
                     "pmulpow": lambda: (a * b) ** n, "pdivpow": lambda: (a / b) ** n}[op]()
            out = "ok"
        except m.FractionalDimensionError:
            r, out = None, "fractional"
        except Exception as ex:
            r, out = None, "OTHER:" + type(ex).__name__
        desc = "%s(%s%s%s)" % (op, a, (", %s" % b) if b is not None else "", (", %d" % n) if (b is None or op.endswith("pow")) else "")
        if ev["kind"] == "fractional":
            if out == "ok" and op == "proot":
                # a root that does not exist may raise; if it returns, its n-th power must give the operand back
                if abs(float(r.quantify()) ** n / float(a.quantify()) - 1) > 1e-9:
                    mm.append(self._mm("C02", "%s:non-integral-root-with-wrong-value" % op, desc))
            elif out == "ok" and op == "droot":
                mm.append(self._mm("C02", "droot:non-divisible-root-returned", "%s returned %r" % (desc, r)))
            elif out not in ("fractional", "ok"):
                mm.append(self._mm("C02", "%s:outcome:%s" % (op, out), desc))
            return self._f(mm)
        if out != "ok":
            return self._f([self._mm("C02", "%s:outcome:%s" % (op, out), "%s raised %s" % (desc, out))])
        stats["ok"] = stats.get("ok", 0) + 1
        if op[0] == "d":
            want = m.Dimension(tuple(ev["d"]))
            if r is not want:
                mm.append(self._mm("C02", "%s:%s" % (op, "normal-form" if tuple(r.exponents) != tuple(ev["d"]) else "identity"),
                                   "%s gave %r, the group law gives the object for %s" % (desc, r, ev["d"])))
        elif ev["kind"] == "object":
            p = ev["p"]
            want = m.Prefix(p[0], p[1]) if p != [0, 0] else m.IdentityPrefix
            if r is not want:
                same_value = abs(float(r.quantify()) / float(want.quantify()) - 1) < 1e-12
                mm.append(self._mm("C02", "%s:%s" % (op, "identity" if same_value else "normal-form"),
                                   "%s gave %r, same-base prefixes must give the object %r" % (desc, r, want)))
                if not same_value:
                    mm.append(self._mm("C11", "%s:same-base-exponents" % op, "%s gave %r, expected %r" % (desc, r, want)))
        else:   # different bases: numeric scale within 1e-9
            p, q = ev["p"], ev["q"]
            fp, fq = float(p[0]) ** p[1] if p[0] else 1.0, float(q[0]) ** q[1] if q[0] else 1.0
            want = fp * fq if op in ("pmul", "pmulpow") else fp / fq
            if op in ("pmulpow", "pdivpow"):
                want = want ** n
                # x**n is also the n-fold product (x**a * x**b is x**(a+b)), by value
                x = (a * b) if op == "pmulpow" else (a / b)
                prod = m.IdentityPrefix
                for _ in range(abs(n)):
                    prod = prod * x
                if n < 0:
                    prod = m.IdentityPrefix / prod
                if abs(float(prod.quantify()) / float(r.quantify()) - 1) > 1e-9:
                    mm.append(self._mm("C02", "%s:power-is-not-the-repeated-product" % op, "%s: (..)**%d has factor %r, the %d-fold product %r" % (desc, n, float(r.quantify()), n, float(prod.quantify()))))
            got = float(r.quantify())
            if abs(got / want - 1) > 1e-9:
                mm.append(self._mm("C02", "%s:cross-base-value" % op, "%s has factor %r, expected %r" % (desc, got, want)))
                mm.append(self._mm("C11", "%s:cross-base-value" % op, "%s has factor %r, expected %r" % (desc, got, want)))
        return self._f(mm)

    def _f(self, mm):
        return [x for x in mm if x["prop"] in self.props]

    def _mm(self, prop, key, detail):
        return {"prop": prop, "key": "algebra:" + key, "detail": detail}


def run_algebra(v, prop, seed):
    t = run_isolated(tables, None)
    res = run_tlc("MC_Algebra", wd=workdir("tlc_algebra"), workers=8, timeout=3000, overlay={"AlgebraData.tla": data_module(t)})
    require_ok(res, "MC_Algebra")
    v.add_tlc(res, "MC_Algebra: %d dimensions, %d registered prefixes, exponents -4..4" % (len(t["dims"]), len(t["prefixes"])))
    cases = res.exports.get("E", [])
    if not cases:
        raise MachineryError("no algebra cases")
    drv = AlgebraDriver(tables=t, props=(prop,))
    rep = replay_histories([[c] for c in cases], drv, split_depth=1, label="algebra_cold")
    order = list(cases)
    random.Random(seed).shuffle(order)
    repw = replay_histories([order[i::8] for i in range(8)], drv, split_depth=1, label="algebra_warm")
    v.impl += rep["n"] + repw["n"]
    v.evaluations += rep["n"] + repw["n"]
    v.nontrivial += rep["stats"].get("ok", 0)
    v.add_violations(rep["mm"])
    cold = {x["key"] for x in rep["mm"]}
    v.add_violations([dict(x, key="warm:" + x["key"]) if x["key"] not in cold else x for x in repw["mm"]])
    v.extra["algebra"] = {"cases": len(cases), "dimensions": len(t["dims"]), "prefixes": len(t["prefixes"]), "stats": rep["stats"]}
