---- MODULE MC_InternShipped ----
EXTENDS InternShipped
MCThreads == {"A", "B"}
MCKeys == {"k"}
====
