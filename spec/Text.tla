---------------------------- MODULE Text ----------------------------
(***************************************************************************)
(* C13 at the level of symbols: how a rendered term is read back.          *)
(*                                                                         *)
(* str() writes a prefixed term as the prefix symbol immediately followed  *)
(* by the unit symbol.  The parser resolves a symbol in the documented     *)
(* order: (1) an exact unit symbol, (2) the FIRST split into a prefix      *)
(* symbol and a unit symbol, (3) a unit name.  With the REAL symbol tables *)
(* as constants (strings are sequences of code points - TLC strings have   *)
(* no character operations), TLC enumerates every registered prefix x      *)
(* registered unit symbol and computes what the concatenation resolves to. *)
(* Every case where that is not (prefix, unit) is a COLLISION: the text    *)
(* str() produces for prefix*unit is read back as something else.          *)
(***************************************************************************)
EXTENDS Integers, Sequences, FiniteSets, TLC
CONSTANTS PBySym,     \* code-point sequence -> prefix index
          UBySym,     \* code-point sequence -> unit index   (all symbols, aliases included)
          UByName,    \* code-point sequence -> unit index
          PSymOf,     \* prefix index -> its symbol
          USymOf      \* unit index -> its primary symbol (what str() prints)
VARIABLES ev
vars == <<ev>>

Splits(s) == {i \in 1..(Len(s) - 1) : SubSeq(s, 1, i) \in DOMAIN PBySym /\ SubSeq(s, i + 1, Len(s)) \in DOMAIN UBySym}
\* <<prefix index (0 = none), unit index>>, or <<-1, -1>> when nothing matches (KeyError)
Resolve(s) ==
  IF s \in DOMAIN UBySym THEN <<0, UBySym[s]>>
  ELSE LET I == Splits(s) IN
       IF I # {} THEN LET i == CHOOSE x \in I : \A y \in I : x <= y
                      IN <<PBySym[SubSeq(s, 1, i)], UBySym[SubSeq(s, i + 1, Len(s))]>>
       ELSE IF s \in DOMAIN UByName THEN <<0, UByName[s]>> ELSE <<-1, -1>>

Init == ev = [op |-> "init", p |-> 0, u |-> 0, r |-> <<0, 0>>]
Case(p, u) == ev' = [op |-> "term", p |-> p, u |-> u, r |-> Resolve(PSymOf[p] \o USymOf[u])]
Plain(u) == ev' = [op |-> "term", p |-> 0, u |-> u, r |-> Resolve(USymOf[u])]
\* design-level expectation: an unprefixed primary symbol always reads back as its unit
C13_PlainSymbols == (ev.op = "term" /\ ev.p = 0) => ev.r = <<0, ev.u>>
=============================================================================
