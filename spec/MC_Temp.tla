---------------------------- MODULE MC_Temp ----------------------------
EXTENDS Temp, Json, IOUtils
EnvInt(name, default) == IF name \in DOMAIN IOEnv THEN atoi(IOEnv[name]) ELSE default
Tier == EnvInt("VERIF_TTIER", 1)
MCScales == {"K", "C", "R", "F"}
MCSrcP == IF Tier = 1 THEN {-3, 0, 3} ELSE {-6, -3, 0, 3}
MCDstP == IF Tier = 1 THEN {-3, 0, 3} ELSE {-6, -3, 0, 3, 6}
\* -500 .. 1000 in steps of 75/2 (quick: 150), plus the absolute zeros of each scale and a few small values
Grid == {<<-1000 + 75 * i, 2>> : i \in 0..40}
RawMags == (IF Tier = 1 THEN {g \in Grid : (g[1] + 1000) % 300 = 0} ELSE Grid)
          \cup {<<0, 1>>, <<-27315, 100>>, <<-45967, 100>>, <<1, 1>>, <<-40, 1>>, <<100, 1>>, <<3, 8>>}
MCMags == {Norm(g[1], g[2]) : g \in RawMags}
MCKinds == {"int", "float", "Decimal"}
Small == {<<0, 1>>, <<-40, 1>>, <<100, 1>>, <<-500, 1>>, <<27315, 100>>, <<1, 2>>}
MCNext == TLCGet("level") = 1 /\
  \/ \E m \in MCMags, k \in MCKinds, s \in MCScales, p \in MCSrcP, t \in MCScales, pt \in MCDstP : ConvertCase(Norm(m[1], m[2]), k, s, p, t, pt)
  \/ \E m \in Small, m2 \in Small, s \in MCScales, t \in MCScales, p \in {0, 3}, pt \in {0, -3} : CompareCase(m, s, p, m2, t, pt)
ExportCase == ev.op # "init" => PrintT("@@E " \o ToJson(ev))
Theorems == ev.op = "init" => (RoundTrip /\ AbsoluteZero /\ Differences /\ Monotone)
=============================================================================
