---------------------------- MODULE MC_LedgerTrace ----------------------------
(***************************************************************************)
(* code -> spec: a recorded history of public calls (harness/ops_recorder)  *)
(* is validated against Ledger.  The wrapper is TOTAL: every event is       *)
(* consumed, every violated clause is reported as one "@@BAD" line (the     *)
(* harness maps clauses to properties), and the final state reports how     *)
(* many events were actually JUDGED (non-vacuity).  The trace is carried in *)
(* a state variable and hidden from the fingerprint by VIEW (the behaviour  *)
(* is linear, so the position identifies the state).                        *)
(***************************************************************************)
EXTENDS Ledger, Json, IOUtils
LRoots == {"meter", "second", "gram", "coulomb", "kelvin", "mole", "candela", "radian", "bit"}
VARIABLES tr, i, cnt
vars == <<tr, i, cnt, size, taint, via, pend, shipped, seen, oks, fails, epoch>>
View == <<i>>

TInit == /\ Init /\ i = 0
         /\ tr = ndJsonDeserialize(IOEnv.VERIF_TRACE_FILE)
         /\ cnt = [decl |-> 0, conv |-> 0, convJudged |-> 0, convFail |-> 0, arith |-> 0, arithValue |-> 0, arithSum |-> 0, cmp |-> 0, cmpJudged |-> 0, cmpReverse |-> 0, cmpHash |-> 0]
E == tr[i + 1]
Expect == IF E.e = "conv" /\ E.out = "ok" /\ JudgedC(E) THEN NetExpected(E.a, E.b, size) ELSE 0
Rep(S) == \A c \in S : PrintT("@@BAD " \o ToJson([i |-> i + 1, clause |-> c, id |-> E.id, expected |-> Expect]))
Bump(f, by) == cnt' = [cnt EXCEPT ![f] = @ + 1, ![by] = @ + 1]
Bump1(f) == cnt' = [cnt EXCEPT ![f] = @ + 1]
TNext ==
  /\ i < Len(tr) /\ i' = i + 1 /\ tr' = tr
  /\ CASE E.e = "decl" -> Declare(E) /\ Bump1("decl")
       [] E.e = "scale" -> DeclareScale(E.b) /\ UNCHANGED cnt
       [] E.e = "start" -> Start /\ UNCHANGED cnt
       [] E.e = "conv" /\ E.out = "ok" ->
            /\ Rep(ConvBad(E)) /\ ConvOK(E)
            /\ IF JudgedC(E) THEN Bump("conv", "convJudged") ELSE Bump1("conv")
       [] E.e = "conv" -> Rep(FailBad(E)) /\ ConvFail(E) /\ Bump1("convFail")
       [] E.e = "arith" ->
            /\ Rep(ArithBad(E)) /\ UNCHANGED lvars
            /\ LET j == E.out = "ok" /\ E.hr /\ E.rt = "q" /\ JudgedQ(E.l) /\ JudgedQ(E.r) /\ JudgedQ(E.res) /\ NZ(E.l) /\ NZ(E.r) /\ NZ(E.res) IN
               IF j /\ E.op \in {"mul", "div"} THEN Bump("arith", "arithValue")
               ELSE IF j /\ E.op \in {"add", "sub"} /\ DPad(E.l.u.d) = DPad(E.r.u.d) THEN Bump("arith", "arithSum")
               ELSE Bump1("arith")
       [] E.e = "cmp" ->
            /\ Rep(CmpBad(E)) /\ UNCHANGED lvars
            /\ LET j == DPad(E.l.u.d) = DPad(E.r.u.d) /\ Order(E.l, E.r) # 0
                   rj == j /\ E.rev \in {"T", "F"}                                      \* the reverse answer is judged too
                   hj == E.op = "eq" /\ E.out = "T" /\ E.hq \in {"T", "F"} /\ E.l.u.k = E.r.u.k   \* equal in one unit: hashes judged
               IN cnt' = [cnt EXCEPT !["cmp"] = @ + 1, !["cmpJudged"] = @ + (IF j THEN 1 ELSE 0),
                                     !["cmpReverse"] = @ + (IF rj THEN 1 ELSE 0), !["cmpHash"] = @ + (IF hj THEN 1 ELSE 0)]
       [] OTHER -> UNCHANGED lvars /\ UNCHANGED cnt
Done == i = Len(tr)
ReportDone == Done => PrintT("@@DONE " \o ToJson([events |-> i, cnt |-> cnt, sized |-> Cardinality(DOMAIN size),
                                                   tainted |-> taint, pending |-> Cardinality(pend), epochs |-> epoch,
                                                   through |-> [b \in (DOMAIN via) \ shipped |-> via[b] \cap (shipped \ Roots)]]))
=============================================================================
