---------------------------- MODULE MC_NamesTrace ----------------------------
(* C19, code -> spec: the declarations the shipped modules make while they are imported, recorded *)
(* from outside (harness/names_recorder.py), one trace per import order.  The wrapper is TOTAL:    *)
(* every event is consumed; for each event it evaluates the clauses of the property on the         *)
(* recorded outcome and bindings together with its own state, and reports every failing clause.    *)
EXTENDS Integers, Sequences, FiniteSets, TLC, Json, NamesTraceData
VARIABLES t, i, byName, bySym
vars == <<t, i, byName, bySym>>
Tr == NTraces[t]
Classes == {"unit", "prefix"}
Init == /\ t \in 1..Len(NTraces) /\ i = 0
        /\ byName = [c \in Classes |-> << >>] /\ bySym = [c \in Classes |-> << >>]
E == Tr[i]
Next == /\ i < Len(Tr) /\ i' = i + 1 /\ t' = t
        /\ LET e == Tr[i + 1] IN
             \* the abstract state follows what the property demands: a successful declaration binds
             /\ byName' = IF e.out = "ok" /\ e.n # "" /\ e.op \notin {"anon", "lookup"} /\ e.n \notin DOMAIN byName[e.c]
                          THEN [byName EXCEPT ![e.c] = (e.n :> e.k) @@ @] ELSE byName
             /\ bySym' = IF e.out = "ok" /\ e.s # "" /\ e.op \notin {"anon", "lookup"} /\ e.s \notin DOMAIN bySym[e.c]
                         THEN [bySym EXCEPT ![e.c] = (e.s :> e.k) @@ @] ELSE bySym
\* clauses evaluated on the event just consumed (i >= 1)
Declared == i >= 1 /\ E.out = "ok" /\ E.op \notin {"anon", "lookup"}
\* a lookup by a symbol that HAS been declared must return the object it was declared for
BadLookup == i >= 1 /\ E.op = "lookup" /\ E.s \in DOMAIN bySym[E.c] /\ E.k # bySym[E.c][E.s]
BadNameBound == Declared /\ E.n # "" /\ (E.bn # E.k \/ ~E.rn)          \* declared name not bound to / reported by the object
BadSymBound  == Declared /\ E.s # "" /\ (E.bs # E.k \/ ~E.rs)
\* uniqueness: the name (symbol) was already bound to a DIFFERENT object and the call did not raise
BadNameUnique == Declared /\ E.n # "" /\ E.n \in DOMAIN byName[E.c] /\ byName[E.c][E.n] # E.k
BadSymUnique  == Declared /\ E.s # "" /\ E.s \in DOMAIN bySym[E.c] /\ bySym[E.c][E.s] # E.k
Rep(clause, what) == PrintT("@@BAD " \o ToJson([t |-> t, i |-> i, clause |-> clause, c |-> E.c, what |-> what, ev |-> E]))
Report == /\ (BadNameBound => Rep("declared-name-not-bound", E.k))
          /\ (BadSymBound => Rep("declared-symbol-not-bound", E.k))
          /\ (BadNameUnique => Rep("name-bound-to-two-objects", E.n))
          /\ (BadSymUnique => Rep("symbol-bound-to-two-objects", E.s))
          /\ (BadLookup => Rep("lookup-returns-another-object", E.s))
=============================================================================
