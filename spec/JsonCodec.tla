---------------------------- MODULE JsonCodec ----------------------------
(***************************************************************************)
(* Growth beyond the listed properties: the installation state of the      *)
(* library's JSON codecs (measured.json).                                  *)
(*                                                                         *)
(*   installed   the standard json module currently encodes/decodes        *)
(*               measured objects (json._default_encoder is the library's) *)
(*   stack       the open `with codecs_installed():` contexts, innermost   *)
(*               last; each remembers whether it was the OUTERMOST one     *)
(*               (only the outermost installs and later uninstalls)        *)
(*   inst        the module-level installer used by install()/uninstall(): *)
(*               "fresh", or "open" together with its outermost flag       *)
(* The spec is written the way the code behaves (one action per call, the  *)
(* linearization point is the call's return); the MISUSE paths are named   *)
(* as such (InstallTwice, UninstallFirst, DeadInstall): they raise, leave  *)
(* `installed` alone, but UninstallFirst kills the module-level installer. *)
(***************************************************************************)
EXTENDS Integers, Sequences, TLC
CONSTANTS MaxDepth
VARIABLES installed, stack, inst, ev
vars == <<installed, stack, inst, ev>>

Ev(op, out, works) == [op |-> op, out |-> out, works |-> works]
Init == installed = FALSE /\ stack = <<>> /\ inst = [st |-> "fresh", outer |-> FALSE] /\ ev = Ev("init", "ok", FALSE)

Enter == /\ Len(stack) < MaxDepth
         /\ stack' = Append(stack, ~installed) /\ installed' = TRUE
         /\ ev' = Ev("enter", "ok", TRUE) /\ UNCHANGED inst
Exit == /\ Len(stack) > 0
        /\ stack' = SubSeq(stack, 1, Len(stack) - 1)
        /\ installed' = IF stack[Len(stack)] THEN FALSE ELSE installed
        /\ ev' = Ev("exit", "ok", installed') /\ UNCHANGED inst
Install == /\ inst.st = "fresh"
           /\ inst' = [st |-> "open", outer |-> ~installed] /\ installed' = TRUE
           /\ ev' = Ev("install", "ok", TRUE) /\ UNCHANGED stack
Uninstall == /\ inst.st = "open"
             /\ inst' = [st |-> "fresh", outer |-> FALSE]
             /\ installed' = IF inst.outer THEN FALSE ELSE installed
             /\ ev' = Ev("uninstall", "ok", installed') /\ UNCHANGED stack
\* misuse 1: install() while the installer is already open: contextlib's __enter__ fails (AttributeError) before it
\* touches the generator; nothing changes
InstallTwice == /\ inst.st = "open"
                /\ ev' = Ev("install", "AttributeError", installed) /\ UNCHANGED <<installed, stack, inst>>
\* misuse 2: uninstall() with a fresh installer starts the generator (installing), sees that it did not stop, raises
\* RuntimeError and closes it (uninstalling again): the installation state is unchanged, but the installer is now DEAD
\* and is not replaced, so the next install() raises too
UninstallFirst == /\ inst.st = "fresh"
                  /\ inst' = [st |-> "dead", outer |-> FALSE]
                  /\ ev' = Ev("uninstall", "RuntimeError", installed) /\ UNCHANGED <<installed, stack>>
\* a dead installer: install() raises (generator didn't yield), uninstall() replaces it
DeadInstall == /\ inst.st = "dead" /\ ev' = Ev("install", "RuntimeError", installed) /\ UNCHANGED <<installed, stack, inst>>
DeadUninstall == /\ inst.st = "dead" /\ inst' = [st |-> "fresh", outer |-> FALSE]
                 /\ ev' = Ev("uninstall", "ok", installed) /\ UNCHANGED <<installed, stack>>
\* observation: does json.dumps(a unit) work right now?
Probe == ev' = Ev("probe", "ok", installed) /\ UNCHANGED <<installed, stack, inst>>

Next == Enter \/ Exit \/ Install \/ Uninstall \/ InstallTwice \/ UninstallFirst \/ DeadInstall \/ DeadUninstall \/ Probe

(* ---- properties ---- *)
\* what a user relies on, and what the code guarantees for WELL-NESTED use: with nothing open, nothing is installed
WellNested == (Len(stack) = 0 /\ inst.st = "fresh") => ~installed
\* what a user would also expect but the code does NOT guarantee (TLC finds Enter, Install, Exit): calling install()
\* inside a `with codecs_installed():` block does not survive the end of the block
OpenInstallerMeansInstalled == inst.st = "open" => installed
\* a raising call never changes what json can encode (holds); it may, however, kill the installer (UninstallFirst)
MisuseKeepsInstalled == [][ev'.out # "ok" => UNCHANGED <<installed, stack>>]_vars
=============================================================================
