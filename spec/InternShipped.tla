---------------------------- MODULE InternShipped ----------------------------
(***************************************************************************)
(* Mechanism model: Unit.__new__ / __init__ as shipped, one label per      *)
(* shared access (check-then-insert on the class-level dict).              *)
(* UseLock = TRUE models a repair that holds one lock around the whole     *)
(* class call.  TLC must find the two-thread violation of C20_Single with  *)
(* UseLock = FALSE and none with TRUE (non-vacuity of the deciding spec).  *)
(***************************************************************************)
EXTENDS Integers, Sequences, FiniteSets, TLC
CONSTANTS Threads, Keys, UseLock

(* --algorithm intern
variables table = << >>,                 \* _known: key -> object id
          inited = {},                   \* objects whose _initialized is True
          nextObj = 1,
          lock = "free",
          ret = [t \in Threads |-> 0];
process thr \in Threads
variables key \in Keys, obj = 0, present = FALSE;
begin
acq:   if UseLock then await lock = "free"; lock := self; end if;
n1:    present := key \in DOMAIN table;                 \* if key in cls._known:
n2:    if present then
         obj := table[key];                             \*     return cls._known[key]
       else
n3:      obj := nextObj; nextObj := nextObj + 1;        \* self = super().__new__(cls)
n5:      table := (key :> obj) @@ table;                \* cls._known[key] = self   (overwrites)
       end if;
i1:    if obj \notin inited then                        \* if self._initialized: return
i9:      inited := inited \cup {obj};                   \* ... self._initialized = True
       end if;
rel:   if UseLock then lock := "free"; end if;
fin:   ret[self] := obj;
end process;
end algorithm; *)
\* BEGIN TRANSLATION
VARIABLES pc, table, inited, nextObj, lock, ret, key, obj, present

vars == << pc, table, inited, nextObj, lock, ret, key, obj, present >>

ProcSet == (Threads)

Init == (* Global variables *)
        /\ table = << >>
        /\ inited = {}
        /\ nextObj = 1
        /\ lock = "free"
        /\ ret = [t \in Threads |-> 0]
        (* Process thr *)
        /\ key \in [Threads -> Keys]
        /\ obj = [self \in Threads |-> 0]
        /\ present = [self \in Threads |-> FALSE]
        /\ pc = [self \in ProcSet |-> "acq"]

acq(self) == /\ pc[self] = "acq"
             /\ IF UseLock
                   THEN /\ lock = "free"
                        /\ lock' = self
                   ELSE /\ TRUE
                        /\ lock' = lock
             /\ pc' = [pc EXCEPT ![self] = "n1"]
             /\ UNCHANGED << table, inited, nextObj, ret, key, obj, present >>

n1(self) == /\ pc[self] = "n1"
            /\ present' = [present EXCEPT ![self] = key[self] \in DOMAIN table]
            /\ pc' = [pc EXCEPT ![self] = "n2"]
            /\ UNCHANGED << table, inited, nextObj, lock, ret, key, obj >>

n2(self) == /\ pc[self] = "n2"
            /\ IF present[self]
                  THEN /\ obj' = [obj EXCEPT ![self] = table[key[self]]]
                       /\ pc' = [pc EXCEPT ![self] = "i1"]
                  ELSE /\ pc' = [pc EXCEPT ![self] = "n3"]
                       /\ obj' = obj
            /\ UNCHANGED << table, inited, nextObj, lock, ret, key, present >>

n3(self) == /\ pc[self] = "n3"
            /\ obj' = [obj EXCEPT ![self] = nextObj]
            /\ nextObj' = nextObj + 1
            /\ pc' = [pc EXCEPT ![self] = "n5"]
            /\ UNCHANGED << table, inited, lock, ret, key, present >>

n5(self) == /\ pc[self] = "n5"
            /\ table' = (key[self] :> obj[self]) @@ table
            /\ pc' = [pc EXCEPT ![self] = "i1"]
            /\ UNCHANGED << inited, nextObj, lock, ret, key, obj, present >>

i1(self) == /\ pc[self] = "i1"
            /\ IF obj[self] \notin inited
                  THEN /\ pc' = [pc EXCEPT ![self] = "i9"]
                  ELSE /\ pc' = [pc EXCEPT ![self] = "rel"]
            /\ UNCHANGED << table, inited, nextObj, lock, ret, key, obj, 
                            present >>

i9(self) == /\ pc[self] = "i9"
            /\ inited' = (inited \cup {obj[self]})
            /\ pc' = [pc EXCEPT ![self] = "rel"]
            /\ UNCHANGED << table, nextObj, lock, ret, key, obj, present >>

rel(self) == /\ pc[self] = "rel"
             /\ IF UseLock
                   THEN /\ lock' = "free"
                   ELSE /\ TRUE
                        /\ lock' = lock
             /\ pc' = [pc EXCEPT ![self] = "fin"]
             /\ UNCHANGED << table, inited, nextObj, ret, key, obj, present >>

fin(self) == /\ pc[self] = "fin"
             /\ ret' = [ret EXCEPT ![self] = obj[self]]
             /\ pc' = [pc EXCEPT ![self] = "Done"]
             /\ UNCHANGED << table, inited, nextObj, lock, key, obj, present >>

thr(self) == acq(self) \/ n1(self) \/ n2(self) \/ n3(self) \/ n5(self)
                \/ i1(self) \/ i9(self) \/ rel(self) \/ fin(self)

(* Allow infinite stuttering to prevent deadlock on termination. *)
Terminating == /\ \A self \in ProcSet: pc[self] = "Done"
               /\ UNCHANGED vars

Next == (\E self \in Threads: thr(self))
           \/ Terminating

Spec == Init /\ [][Next]_vars

Termination == <>(\A self \in ProcSet: pc[self] = "Done")

\* END TRANSLATION
Finished == \A t \in Threads : pc[t] = "Done"
C20_Single == Finished => \A s, t \in Threads : key[s] = key[t] => (ret[s] = ret[t] /\ table[key[s]] = ret[s])
=============================================================================
