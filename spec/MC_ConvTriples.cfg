CONSTANTS
  Base <- MCBase
  bdim <- MCbdim
  Fund <- MCFund
  Cands <- MCCands
  Roots <- MCRoots
INIT MCInit
NEXT MCNext3
INVARIANT ExportSystem
INVARIANT ExportCase3
INVARIANT S1Consistent
CHECK_DEADLOCK FALSE
