---------------------------- MODULE MC_ConvHist ----------------------------
(* C08 for COMPOUND units: all interleavings of declarations and compound conversions over a  *)
(* fragment of S1 in which a force-like and a power-like base unit get their product          *)
(* definitions late.  For compound units the spec leaves success uninterpreted but demands    *)
(* single-valuedness: the outcome of a query is a function of the declarations made before it *)
(* (C08_Seen).  The reference observation for <<declarations, query>> is the history in which *)
(* that query is the only one, which is itself one of the behaviours explored here.           *)
EXTENDS Conversions, Json, IOUtils

EnvInt(name, default) == IF name \in DOMAIN IOEnv THEN atoi(IOEnv[name]) ELSE default
MaxDecl == EnvInt("VERIF_MAXDECL", 2)
MaxQ    == EnvInt("VERIF_MAXQ", 2)

MCFund == {"L", "T", "M"}
BaseSeq == <<"ma", "mc", "sa", "sb", "gb", "fa", "pa">>
MCBase == {BaseSeq[i] : i \in 1..Len(BaseSeq)}
D(l, t, m) == [L |-> l, T |-> t, M |-> m]
MCbdim == [b \in MCBase |->
   CASE b \in {"ma", "mc"} -> D(1, 0, 0) [] b \in {"sa", "sb"} -> D(0, 1, 0) [] b = "gb" -> D(0, 0, 1)
     [] b = "fa" -> D(1, -2, 1) [] b = "pa" -> D(2, -3, 1)]
Bag(S) == [b \in MCBase |-> IF \E x \in S : x[1] = b THEN (CHOOSE x \in S : x[1] = b)[2] ELSE 0]
C(l, pv, p, S) == [l |-> l, lp |-> 0, pv |-> pv, p |-> p, r |-> Bag(S)]
CL(l, lp, pv, p, S) == [l |-> l, lp |-> lp, pv |-> pv, p |-> p, r |-> Bag(S)]
MCCands == <<
  C("mc", <<0, 1, 0>>, 0, {<<"ma", 1>>}),                               \* mc = 3 ma
  C("sb", <<2, 1, 1>>, 0, {<<"sa", 1>>}),                               \* sb = 60 sa
  C("fa", <<0, 0, 1>>, 0, {<<"gb", 1>>, <<"ma", 1>>, <<"sa", -2>>}),    \* fa = 5 gb*ma/sa^2
  C("pa", <<2, 0, 3>>, 0, {<<"mc", 1>>, <<"fa", 1>>, <<"sa", -1>>}) >>  \* pa = 500 mc*fa/sa
MCRoots == {"ma", "sa", "gb"}
Q(S, T) == <<U(0, Bag(S)), U(0, Bag(T))>>
Queries == <<
  Q({<<"fa", 1>>, <<"sb", 1>>}, {<<"fa", 1>>, <<"sa", 1>>}),
  Q({<<"fa", 1>>, <<"sa", 1>>}, {<<"gb", 1>>, <<"ma", 1>>, <<"sa", -1>>}),
  Q({<<"fa", 1>>}, {<<"gb", 1>>, <<"ma", 1>>, <<"sa", -2>>}),
  Q({<<"pa", 1>>}, {<<"mc", 1>>, <<"fa", 1>>, <<"sa", -1>>}),
  Q({<<"pa", 1>>, <<"sa", 1>>}, {<<"gb", 1>>, <<"ma", 2>>, <<"sa", -2>>}),
  Q({<<"mc", 1>>, <<"sb", -1>>}, {<<"ma", 1>>, <<"sa", -1>>}),
  Q({<<"gb", 1>>, <<"mc", 1>>, <<"sb", -2>>}, {<<"fa", 1>>}),
  Q({<<"fa", 1>>, <<"mc", 1>>}, {<<"pa", 1>>, <<"sa", 1>>}) >>

NQ == Cardinality({k \in 1..Len(hist) : hist[k].op # "declare"})
Ask(k) ==
  /\ ev' = Ev("convert", k, Queries[k][1], Queries[k][2], "ok-or-CNF", PV0, 1)
  /\ hist' = Append(hist, ev')
  /\ UNCHANGED decl
MCNext ==
  \/ \E i \in 1..Len(MCCands) : Len(decl) < MaxDecl /\ Declare(i)
  \/ \E k \in 1..Len(Queries) : NQ < MaxQ /\ Ask(k)
ExportHist == Len(hist) > 0 => PrintT("@@H " \o ToJson(hist))
ExportSystem == ev.op = "init" => PrintT("@@SYS " \o ToJson([base |-> BaseSeq, bdim |-> MCbdim, cands |-> MCCands, decl |-> <<>>]))
=============================================================================
