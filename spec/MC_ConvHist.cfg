CONSTANTS
  Base <- MCBase
  bdim <- MCbdim
  Fund <- MCFund
  Cands <- MCCands
  Roots <- MCRoots
INIT Init
NEXT MCNext
INVARIANT ExportSystem
INVARIANT ExportHist
INVARIANT C08_Function
CHECK_DEADLOCK FALSE
