CONSTANTS
  Threads <- MCThreads
  Keys <- MCKeys
  UseLock = TRUE
SPECIFICATION Spec
INVARIANT C20_Single
CHECK_DEADLOCK FALSE
