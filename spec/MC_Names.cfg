CONSTANTS
  Classes <- MCClasses
  Keys <- MCKeys
  NameTok <- MCNameTok
  SymTok <- MCSymTok
  BadSyms <- MCBadSyms
  MaybeSyms <- MCMaybeSyms
INIT MCInit
NEXT MCNext
VIEW View
ACTION_CONSTRAINT Export
INVARIANT ExportInit
INVARIANT C19_Bound
INVARIANT C19_Declared
PROPERTY C19_Unique
PROPERTY C19_Atomic
CHECK_DEADLOCK FALSE
