---------------------------- MODULE MC_RegistryTrace ----------------------------
(***************************************************************************)
(* C01 / C02, code -> spec: the evolution of the unit intern table while   *)
(* the repository's OWN test suite runs (one process, ~35 000 interned     *)
(* units over all shipped modules), recorded from outside by a pytest      *)
(* plugin (harness/verif_pytest_recorder.py), is checked against the       *)
(* Registry properties.  The wrapper is total: every event is consumed,    *)
(* and for every new table entry TLC recomputes the product of the factor  *)
(* dimensions ITSELF from the recorded base-unit dimensions.               *)
(*   C01_DimConsistent  each new entry stores DimOf(its factors)           *)
(*   C01_Permanent      no recorded entry ever changes its dimension       *)
(*   C02_Canonical      no second object for a normal form, no entry       *)
(*                      replaced, object ids never reused for another unit *)
(* Event: [i, test, new: << <<oid, <<pbase, pexp>>, bag, dim>> >>, changed, replaced]; *)
(* first and last line carry bases: name -> dimension exponents.           *)
(***************************************************************************)
EXTENDS Integers, Sequences, FiniteSets, TLC, Json, IOUtils
VARIABLES tr, i, keys, oids
vars == <<tr, i, keys, oids>>

Init == /\ tr = ndJsonDeserialize(IOEnv.VERIF_TRACE_FILE)
        /\ i = 1 /\ keys = {} /\ oids = {}
BDim == tr[Len(tr)].bases
Comp(d, k) == IF k <= Len(d) THEN d[k] ELSE 0
RECURSIVE SumAt(_, _, _)
SumAt(bag, j, k) == IF j > Len(bag) THEN 0
                    ELSE (IF bag[j][1] \in DOMAIN BDim THEN bag[j][2] * Comp(BDim[bag[j][1]], k) ELSE 0) + SumAt(bag, j + 1, k)
N == 12
DimOK(n) == \A k \in 1..N : SumAt(n[3], 1, k) = Comp(n[4], k)
KnownBases(n) == \A j \in 1..Len(n[3]) : n[3][j][1] \in DOMAIN BDim
Key(n) == <<n[2], n[3]>>
E == tr[i + 1]
IsEvent == i + 1 < Len(tr)
Rep(clause, what) == PrintT("@@BAD " \o ToJson([i |-> i + 1, test |-> E.test, clause |-> clause, what |-> what]))
Next == /\ IsEvent /\ i' = i + 1 /\ tr' = tr
        /\ keys' = keys \cup {Key(E.new[j]) : j \in 1..Len(E.new)}
        /\ oids' = oids \cup {E.new[j][1] : j \in 1..Len(E.new)}
        /\ \A j \in 1..Len(E.new) : LET n == E.new[j] IN
             /\ ((KnownBases(n) /\ ~DimOK(n)) => Rep("C01_DimConsistent", n))
             /\ ((Key(n) \in keys) => Rep("C02_Canonical:second-object-for-a-normal-form", n))
        /\ (Len(E.changed) > 0 => Rep("C01_Permanent", E.changed))
        /\ (E.replaced > 0 => Rep("C02_Canonical:entry-replaced", E.replaced))
Done == ~IsEvent
ReportDone == Done => PrintT("@@DONE " \o ToJson([events |-> i - 1, entries |-> Cardinality(keys)]))
=============================================================================
