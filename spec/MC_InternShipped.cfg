CONSTANTS
  Threads <- MCThreads
  Keys <- MCKeys
  UseLock = FALSE
SPECIFICATION Spec
INVARIANT C20_Single
CHECK_DEADLOCK FALSE
