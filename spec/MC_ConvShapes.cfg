CONSTANTS
  Base <- MCBase
  bdim <- MCbdim
  Fund <- MCFund
  Cands <- MCCands
  Roots <- MCRoots
INIT MCInit
NEXT MCNext
INVARIANT ExportSystem
INVARIANT ExportCase
INVARIANT S1Consistent
INVARIANT C05_Model
CHECK_DEADLOCK FALSE
