CONSTANTS
  Base <- MCBase
  bdim <- MCbdim
  Fund <- MCFund
  Cands <- MCCands
  Roots <- MCRoots
INIT Init
NEXT MCNextDecl
VIEW DeclView
INVARIANT C05_RoundTrip
INVARIANT C05_Route
INVARIANT Consistent
CHECK_DEADLOCK FALSE
