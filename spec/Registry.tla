---------------------------- MODULE Registry ----------------------------
(***************************************************************************)
(* The unit intern table of `measured` at its public API boundary.         *)
(*                                                                         *)
(* Abstract state: `known` is the set of unit normal forms that have been  *)
(* interned (projection of Unit._known), `dimOf[u]` is the dimension that  *)
(* was *stored* in the object when it was first created (the code never    *)
(* changes it afterwards), `oidOf[u]` is the identity token of the object. *)
(* A normal form is [p |-> prefix exponent (base 10; 0 = identity prefix), *)
(*                   f |-> bag Base -> Int].                               *)
(* One action per public call.  Get-or-create is `Intern`: the dimension   *)
(* stored for a new entry is the one the *call site* supplies, exactly as  *)
(* Unit.__new__/__init__ behave; the intended design supplies DimOf(f).    *)
(* `Shipped` switches on named deviations that model what the code did as  *)
(* shipped (mechanism variants used for non-vacuity and directed search).  *)
(*                                                                         *)
(* Properties: C01 (dimension consistency, permanence), C02 (canonical     *)
(* objects, group laws are the definitions of Mul/Div/Pow/Root below and   *)
(* are checked as theorems in MC_Algebra), C15 (Dump/Load).                *)
(***************************************************************************)
EXTENDS Integers, Sequences, FiniteSets, TLC

CONSTANTS Base,      \* base-unit tokens
          bdim,      \* Base -> [Fund -> Int]
          Fund,      \* fundamental-dimension tokens
          PExp,      \* prefix exponents offered to PMul
          Powers,    \* exponents offered to Pow
          Roots,     \* degrees offered to Root
          MaxE,      \* bound on |factor exponent|
          MaxP,      \* bound on |prefix exponent|
          Ops,       \* enabled operations
          Seeds,     \* extra units already interned at Init (built by ordinary algebra before the history starts)
          Foreign,   \* units whose serialised form arrives from ANOTHER process (may not be interned here yet)
          QKinds,    \* what is serialised: 0 the unit itself; 1, 2, 3 a quantity with int, float, Decimal magnitude;
                     \* 4 a quantity whose int magnitude is beyond 2^53 (no longer a number every JSON reader keeps)
          Shipped    \* subset of {"as_ratio_dim", "root_floor"}: deviations of the shipped code

VARIABLES known, dimOf, oidOf, nextOid, pickled, ev

tab  == <<known, dimOf, oidOf, nextOid>>
vars == <<known, dimOf, oidOf, nextOid, pickled, ev>>

U(p, f)   == [p |-> p, f |-> f]
ZeroBag   == [b \in Base |-> 0]
One       == U(0, ZeroBag)
Single(b) == U(0, [c \in Base |-> IF c = b THEN 1 ELSE 0])

RECURSIVE SumOver(_, _, _)
SumOver(S, f, i) == IF S = {} THEN 0
                    ELSE LET b == CHOOSE x \in S : TRUE IN f[b] * bdim[b][i] + SumOver(S \ {b}, f, i)
DimOf(f)   == [i \in Fund |-> SumOver(Base, f, i)]
InBounds(u) == (\A b \in Base : u.f[b] \in -MaxE..MaxE) /\ u.p \in -MaxP..MaxP

(* ---- the free abelian group the code must implement (C02) ---- *)
UMul(u, v) == U(u.p + v.p, [b \in Base |-> u.f[b] + v.f[b]])
UDiv(u, v) == U(u.p - v.p, [b \in Base |-> u.f[b] - v.f[b]])
UPow(u, n) == U(u.p * n, [b \in Base |-> u.f[b] * n])
Divides(n, e) == e % (IF n < 0 THEN -n ELSE n) = 0
Divisible(u, n) == Divides(n, u.p) /\ \A b \in Base : Divides(n, u.f[b])
\* exact quotient for n # 0 when n divides e
Quot(e, n) == IF n > 0 THEN (IF e >= 0 THEN e \div n ELSE -((-e) \div n))
              ELSE (IF e >= 0 THEN -(e \div (-n)) ELSE ((-e) \div (-n)))
URoot(u, n) == U(Quot(u.p, n), [b \in Base |-> Quot(u.f[b], n)])
\* Python floor division, used only by the "root_floor" mechanism variant
Floor(e, n) == IF n > 0 THEN e \div n ELSE (-e) \div (-n)
UNum(u) == U(u.p, [b \in Base |-> IF u.f[b] > 0 THEN u.f[b] ELSE 0])
UDen(u) == U(0,   [b \in Base |-> IF u.f[b] < 0 THEN -u.f[b] ELSE 0])
UBare(u) == U(0, u.f)

(* ---- get-or-create ---- *)
Intern(S, d) ==
  /\ known' = known \cup S
  /\ dimOf' = [u \in known \cup S |-> IF u \in known THEN dimOf[u] ELSE d[u]]
  /\ LET new == S \ known
         n   == Cardinality(new)
         ord == CHOOSE sq \in [1..n -> new] : \A i, j \in 1..n : i # j => sq[i] # sq[j]
     IN /\ oidOf' = [u \in known \cup S |-> IF u \in known THEN oidOf[u]
                                           ELSE nextOid + (CHOOSE i \in 1..n : ord[i] = u) - 1]
        /\ nextOid' = nextOid + n
Right(S) == [u \in S |-> DimOf(u.f)]        \* what every call site must supply

\* the last event: op, unit arguments a b, integer argument n, string argument k, outcome, results
Ev(op, a, b, n, k, out, r, d, oid, new) ==
  [op |-> op, a |-> a, b |-> b, n |-> n, k |-> k, out |-> out, r |-> r, d |-> d, oid |-> oid, new |-> new]
OkUnit(op, a, b, n, r) ==
  ev' = Ev(op, a, b, n, "", "ok", <<r>>, <<DimOf(r.f)>>, <<oidOf'[r]>>, {r} \ known)

Mul(u, v) == LET r == UMul(u, v) IN
  /\ "mul" \in Ops /\ InBounds(r) /\ Intern({r}, Right({r})) /\ OkUnit("mul", u, v, 0, r) /\ UNCHANGED pickled
Div(u, v) == LET r == UDiv(u, v) IN
  /\ "div" \in Ops /\ InBounds(r) /\ Intern({r}, Right({r})) /\ OkUnit("div", u, v, 0, r) /\ UNCHANGED pickled
Pow(u, n) == LET r == UPow(u, n) IN
  /\ "pow" \in Ops /\ InBounds(r) /\ Intern({r}, Right({r})) /\ OkUnit("pow", u, One, n, r) /\ UNCHANGED pickled
PMul(u, e) == LET r == U(u.p + e, u.f) IN
  /\ "pmul" \in Ops /\ InBounds(r) /\ Intern({r}, Right({r})) /\ OkUnit("pmul", u, One, e, r) /\ UNCHANGED pickled
Quantify(u) == LET r == UBare(u) IN
  /\ "quantify" \in Ops /\ Intern({r}, Right({r})) /\ OkUnit("quantify", u, One, 0, r) /\ UNCHANGED pickled

DimDivisible(u, n) == \A i \in Fund : Divides(n, DimOf(u.f)[i])
Root(u, n) ==
  /\ "root" \in Ops
  /\ IF Divisible(u, n)
     THEN LET r == URoot(u, n) IN Intern({r}, Right({r})) /\ OkUnit("root", u, One, n, r)
     ELSE IF "root_floor" \in Shipped /\ DimDivisible(u, n) /\ Divides(n, u.p)
                /\ (\A b \in Base : u.f[b] > 0 => Divides(n, u.f[b]))
          THEN \* as shipped: negative exponents are floor-divided, the *dimension's* root is stored
               LET r == U(Quot(u.p, n), [b \in Base |-> Floor(u.f[b], n)])
                   d == [i \in Fund |-> Quot(DimOf(u.f)[i], n)]
               IN /\ Intern({r}, (r :> d))
                  /\ ev' = Ev("root", u, One, n, "", "ok", <<r>>, <<d>>, <<oidOf'[r]>>, {r} \ known)
          ELSE /\ ev' = Ev("root", u, One, n, "", "Fractional", <<>>, <<>>, <<>>, {})
               /\ UNCHANGED tab
  /\ UNCHANGED pickled

RatioDims(u) ==
  IF "as_ratio_dim" \in Shipped
  THEN \* as shipped: numerator/denominator dimensions split by the sign of the *dimension's* exponents
       LET d == DimOf(u.f) IN
       (UNum(u) :> [i \in Fund |-> IF d[i] > 0 THEN d[i] ELSE 0]) @@
       (UDen(u) :> [i \in Fund |-> IF d[i] < 0 THEN -d[i] ELSE 0])
  ELSE Right({UNum(u), UDen(u)})
AsRatioLike(op, kind, u) ==
  /\ Intern({UNum(u), UDen(u)}, RatioDims(u))
  /\ ev' = Ev(op, u, One, 0, kind, "ok", <<UNum(u), UDen(u)>>, <<dimOf'[UNum(u)], dimOf'[UDen(u)]>>,
               <<oidOf'[UNum(u)], oidOf'[UDen(u)]>>, {UNum(u), UDen(u)} \ known)
AsRatio(u) == "as_ratio" \in Ops /\ AsRatioLike("as_ratio", "", u) /\ UNCHANGED pickled
\* rendering: "ratio" (format spec "/"), "pretty" and "mathml" go through as_ratio(); "str" and "repr" touch nothing
Render(u, kind) ==
  /\ "render" \in Ops
  /\ IF kind \in {"ratio", "pretty"}
     THEN AsRatioLike("render", kind, u)
     ELSE /\ ev' = Ev("render", u, One, 0, kind, "ok", <<>>, <<>>, <<>>, {})
          /\ UNCHANGED tab
  /\ UNCHANGED pickled

\* conversion/comparison between two known units of one dimension: the table may only grow
\* consistently (frame condition, judged on the implementation's own table by the harness)
Touch(u, v, kind) ==
  /\ "touch" \in Ops /\ u # v /\ DimOf(u.f) = DimOf(v.f)
  /\ ev' = Ev("touch", u, v, 0, kind, "ok", <<>>, <<>>, <<>>, {})
  /\ UNCHANGED <<tab, pickled>>

\* C15: serialisation is two separate steps so that other operations may come in between.
\* kind 0 = the unit itself; kind 1, 2, 3 = a quantity of that unit with an int, float, Decimal magnitude; 4 = a big int
\* (in histories with a DefineDim only what was serialised BEFORE the definition is of interest - the rest are the
\* ordinary round trips - so the abstract state, a set, determines the order of dumps and definition)
Dump(u, codec, kind) ==
  /\ "dump" \in Ops /\ <<u, codec, kind>> \notin pickled /\ <<One, "defdim", 100>> \notin pickled
  /\ pickled' = pickled \cup {<<u, codec, kind>>}
  /\ ev' = Ev("dump", u, One, kind, codec, "ok", <<>>, <<>>, <<>>, {})
  /\ UNCHANGED tab
Load(u, codec, kind) ==
  /\ "load" \in Ops /\ <<u, codec, kind>> \in pickled
  /\ ev' = Ev("load", u, One, kind, codec, "ok", <<u>>, <<dimOf[u]>>, <<oidOf[u]>>, {})
  /\ UNCHANGED <<tab, pickled>>
\* a serialised unit / quantity that was produced by another process: loading it is get-or-create
LoadForeign(u, codec, kind) ==
  /\ "loadf" \in Ops /\ u \in Foreign
  /\ Intern({u}, Right({u}))
  /\ ev' = Ev("loadf", u, One, kind, codec, "ok", <<u>>, <<DimOf(u.f)>>, <<oidOf'[u]>>, {u} \ known)
  \* what has been loaded is part of the observable history (kind + 10 marks a foreign load), so that
  \* sequences of loads are distinct behaviours even when the table does not change
  /\ <<u, codec, kind + 10>> \notin pickled
  /\ pickled' = pickled \cup {<<u, codec, kind + 10>>}

\* Dimension.define(): a NEW fundamental dimension is defined in the middle of the process.  Nothing about the units
\* that exist changes (their dimensions have exponent 0 in the new direction): the table, every stored dimension and
\* every object identity stay as they are - and what was serialised before must still load to the identical objects.
\* (The implementation re-keys and resizes every Dimension in place.)  At most one per history; the event is part of
\* the observable history through `pickled`.
DefineDim ==
  /\ "defdim" \in Ops /\ <<One, "defdim", 100>> \notin pickled
  /\ pickled' = pickled \cup {<<One, "defdim", 100>>}
  /\ ev' = Ev("defdim", One, One, 0, "", "ok", <<>>, <<>>, <<>>, {})
  /\ UNCHANGED tab

Codecs == {"pickle", "copy", "deepcopy", "json"}
Kinds  == {"str", "ratio", "pretty", "mathml"}

RECURSIVE Enum(_)
Enum(S) == IF S = {} THEN <<>> ELSE LET x == CHOOSE y \in S : TRUE IN <<x>> \o Enum(S \ {x})
Init == /\ known = {One} \cup {Single(b) : b \in Base} \cup Seeds
        /\ dimOf = [u \in known |-> DimOf(u.f)]
        /\ oidOf = LET sq == Enum(known) IN [u \in known |-> CHOOSE i \in 1..Len(sq) : sq[i] = u]
        /\ nextOid = 100
        /\ pickled = {}
        /\ ev = Ev("init", One, One, 0, "", "ok", <<>>, <<>>, <<>>, {})

Next == \/ \E u, v \in known : Mul(u, v) \/ Div(u, v) \/ (\E k \in {"convert", "eq"} : Touch(u, v, k))
        \/ \E u \in known, n \in Powers : Pow(u, n)
        \/ \E u \in known, n \in Roots : Root(u, n)
        \/ \E u \in known, e \in PExp : PMul(u, e)
        \/ \E u \in known : AsRatio(u) \/ Quantify(u)
        \/ \E u \in known, k \in Kinds : Render(u, k)
        \/ \E u \in known, c \in Codecs, q \in QKinds : Dump(u, c, q) \/ Load(u, c, q)
        \/ \E u \in Foreign, c \in {"pickle", "json"}, q \in QKinds : LoadForeign(u, c, q)
        \/ DefineDim
Spec == Init /\ [][Next]_vars

(* ---------------- properties ---------------- *)
C01_DimConsistent == \A u \in known : dimOf[u] = DimOf(u.f)
C01_Permanent     == [][\A u \in known : u \in known' /\ dimOf'[u] = dimOf[u]]_vars
C01_ResultDim     == (ev.op # "init" /\ ev.out = "ok") =>
                        \A i \in 1..Len(ev.r) : ev.d[i] = DimOf(ev.r[i].f)
C02_Canonical     == \A u, v \in known : oidOf[u] = oidOf[v] => u = v
C02_SameObject    == [][\A u \in known : oidOf'[u] = oidOf[u]]_vars
C02_ResultObject  == (ev.op # "init" /\ ev.out = "ok") =>
                        \A i \in 1..Len(ev.r) : ev.r[i] \in known /\ ev.oid[i] = oidOf[ev.r[i]]
C15_Identity      == [][/\ ev'.op = "load" => (ev'.oid = <<oidOf[ev'.a]>> /\ UNCHANGED tab)
                        /\ (ev'.op = "loadf" /\ ev'.a \in known) => (ev'.oid = <<oidOf[ev'.a]>> /\ UNCHANGED tab)]_vars
TypeOK == /\ \A u \in known : InBounds(u) \/ u.p \notin -MaxP..MaxP \/ TRUE
          /\ DOMAIN dimOf = known /\ DOMAIN oidOf = known
=============================================================================
