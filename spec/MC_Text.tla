---------------------------- MODULE MC_Text ----------------------------
EXTENDS Text, TextData, Json
MCNext == TLCGet("level") = 1 /\
  \/ \E p \in DOMAIN DPSymOf, u \in DOMAIN DUSymOf : Case(p, u)
  \/ \E u \in DOMAIN DUSymOf : Plain(u)
\* only the collisions and the plain terms are exported; the harness knows the rest are (p, u)
ExportCase == (ev.op = "term" /\ ev.r # <<ev.p, ev.u>>) => PrintT("@@COL " \o ToJson(ev))
=============================================================================
