---------------------------- MODULE InternAtomic ----------------------------
(***************************************************************************)
(* The deciding specification of C20: interning is a LINEARIZABLE          *)
(* get-or-create.  Threads issue Call(t, key) and later Return(t, oid);    *)
(* between the two there is exactly one atomic step Lin(t) that reads or   *)
(* fills the table.  A recorded concurrent history of the real library is  *)
(* accepted iff some choice of linearization points explains every         *)
(* recorded return value and the final table.                              *)
(*                                                                         *)
(* Hist is a SEQUENCE of recorded histories (one TLC run validates a whole *)
(* batch); each history is a sequence of events                            *)
(*   [ev |-> "call", thr, key]  [ev |-> "ret", thr, oid]                   *)
(*   [ev |-> "final", key, oid]   (table content after all threads joined, *)
(*                                 and the object a LATER evaluation got)  *)
(* with the order taken by the scheduler that ran one thread at a time.    *)
(***************************************************************************)
EXTENDS Integers, Sequences, FiniteSets, TLC
CONSTANTS Hist, Threads
VARIABLES h, l, table, pend
vars == <<h, l, table, pend>>

Tr == Hist[h]
None == [key |-> "", done |-> FALSE, oid |-> 0]
Init == /\ h \in 1..Len(Hist) /\ l = 1 /\ table = << >> /\ pend = [t \in Threads |-> None]

\* the oid a pending call of thread t will return (looked ahead in the recorded history)
FutureOid(t) == LET S == {i \in l..Len(Tr) : Tr[i].ev = "ret" /\ Tr[i].thr = t}
                IN IF S = {} THEN 0 ELSE Tr[CHOOSE i \in S : \A j \in S : i <= j].oid

Call == /\ l <= Len(Tr) /\ Tr[l].ev = "call"
        /\ pend' = [pend EXCEPT ![Tr[l].thr] = [key |-> Tr[l].key, done |-> FALSE, oid |-> 0]]
        /\ l' = l + 1 /\ UNCHANGED <<h, table>>
\* the silent, atomic step: get-or-create
Lin(t) == /\ pend[t].key # "" /\ ~pend[t].done
          /\ LET k == pend[t].key IN
             IF k \in DOMAIN table
             THEN /\ pend' = [pend EXCEPT ![t] = [@ EXCEPT !.done = TRUE, !.oid = table[k]]]
                  /\ UNCHANGED table
             ELSE /\ table' = table @@ (k :> FutureOid(t))
                  /\ pend' = [pend EXCEPT ![t] = [@ EXCEPT !.done = TRUE, !.oid = FutureOid(t)]]
          /\ UNCHANGED <<h, l>>
Ret == /\ l <= Len(Tr) /\ Tr[l].ev = "ret"
       /\ LET t == Tr[l].thr IN /\ pend[t].done /\ pend[t].oid = Tr[l].oid
                                /\ pend' = [pend EXCEPT ![t] = None]
       /\ l' = l + 1 /\ UNCHANGED <<h, table>>
\* after the join: the table holds exactly the linearized object and a later evaluation returns it
Final == /\ l <= Len(Tr) /\ Tr[l].ev = "final"
         /\ Tr[l].key \in DOMAIN table /\ table[Tr[l].key] = Tr[l].oid
         /\ l' = l + 1 /\ UNCHANGED <<h, table, pend>>
Next == Call \/ Ret \/ Final \/ \E t \in Threads : Lin(t)
Spec == Init /\ [][Next]_vars

Accepted == l = Len(Tr) + 1
\* one line per accepted history; the harness treats every history that was not reported as rejected
ReportAccepted == Accepted => PrintT(<<"@@ACC", h>>)
\* design-level property of the spec itself: one object per key, ever
C20_TableInjective == \A j, k \in DOMAIN table : table[j] = table[k] => j = k
C20_Single == \A t \in Threads : pend[t].done => (pend[t].key \in DOMAIN table /\ table[pend[t].key] = pend[t].oid)
=============================================================================
