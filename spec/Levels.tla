---------------------------- MODULE Levels ----------------------------
(***************************************************************************)
(* C18: levels and quantities interconvert by the logarithmic definition   *)
(*     level = (k / value(prefix)) * log_base(quantity / reference)        *)
(* with k = 1 for power and 2 for root-power references.                   *)
(*                                                                         *)
(* A positive quantity is represented by its lattice exponent e = j/12     *)
(* (quantity = reference * base^e), so the level is the RATIONAL           *)
(*     L = k * (j/12) / (pb ^ pe)                                          *)
(* and everything the property says (definition, strict monotonicity,      *)
(* both round trips) is linear over Q and exact in TLC.  The exponential   *)
(* map base^e itself lives in alpha (50-digit decimals).                   *)
(***************************************************************************)
EXTENDS Num, Sequences, FiniteSets, TLC
CONSTANTS Families,   \* sequence of [name, base (token), pb, pe]: the logarithm's prefix is pb^pe (pb = 0: none)
          Refs,       \* sequence of [name, k]: reference quantities (k = 1 power, 2 root-power)
          J           \* lattice points
VARIABLES ev
vars == <<ev>>

PrefixValue(f) == IF f.pb = 0 THEN <<1, 1>> ELSE RPow(<<f.pb, 1>>, f.pe)
LevelOf(f, r, j) == RDiv(RMul(<<r.k, 1>>, Norm(j, 12)), PrefixValue(f))
\* the exponent of the base that Level.quantify() must apply to the reference for a level L
ExponentOf(f, r, L) == RDiv(RMul(L, PrefixValue(f)), <<r.k, 1>>)

\* mk: the magnitude type the quantity / the level is written in; the definition does not depend on it
Ev(op, f, r, j, L, mk) == [op |-> op, f |-> f, r |-> r, j |-> j, L |-> L, mk |-> mk]
Init == ev = Ev("init", 0, 0, 0, <<0, 1>>, "")
Case(f, r, j, mk) == ev' = Ev("level", f, r, j, LevelOf(Families[f], Refs[r], j), mk)

\* theorems of the statement on the model
Monotone == \A f \in 1..Len(Families), r \in 1..Len(Refs), j \in J : (j + 1 \in J) =>
               RLt(LevelOf(Families[f], Refs[r], j), LevelOf(Families[f], Refs[r], j + 1))
RoundTrip == \A f \in 1..Len(Families), r \in 1..Len(Refs), j \in J :
               ExponentOf(Families[f], Refs[r], LevelOf(Families[f], Refs[r], j)) = Norm(j, 12)
ZeroAtReference == \A f \in 1..Len(Families), r \in 1..Len(Refs) : LevelOf(Families[f], Refs[r], 0) = <<0, 1>>
=============================================================================
