---- MODULE MC_Memo ----
EXTENDS MemoShipped
MCNode == {"x", "y", "z"}
MCEdges == {<<"x", "y">>, <<"y", "z">>}
====
