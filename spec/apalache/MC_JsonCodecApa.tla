---------------------------- MODULE MC_JsonCodecApa ----------------------------
(***************************************************************************)
(* Apalache wrapper for JsonCodec: WellNested as a consequence of an       *)
(* INDUCTIVE invariant, so it holds after any number of calls (TLC checks  *)
(* it to depth 5).  The nesting depth is bounded by the symbolic stack     *)
(* (Gen(8)) only.                                                          *)
(*   IndInv: at most one open context / installer carries the "outermost"  *)
(*   flag, and the codecs are installed exactly when one does.             *)
(*   apalache-mc check --init=Init    --inv=IndInv     --length=0          *)
(*   apalache-mc check --init=IndInit --inv=IndInv     --length=1          *)
(*   apalache-mc check --init=IndInit --inv=WellNested --length=0          *)
(***************************************************************************)
EXTENDS Integers, Sequences, FiniteSets, Apalache
VARIABLES
  \* @type: Bool;
  installed,
  \* @type: Seq(Bool);
  stack,
  \* @type: { st: Str, outer: Bool };
  inst,
  \* @type: { op: Str, out: Str, works: Bool };
  ev
MaxDepth == 8
INSTANCE JsonCodec

Flags == Cardinality({i \in DOMAIN stack : stack[i]}) + (IF inst.st = "open" /\ inst.outer THEN 1 ELSE 0)
IndInv == /\ Len(stack) <= MaxDepth
          /\ inst.st \in {"fresh", "open", "dead"}
          /\ (inst.st # "open" => ~inst.outer)
          /\ Flags = (IF installed THEN 1 ELSE 0)
IndInit == /\ installed \in BOOLEAN
           /\ stack = Gen(8)
           /\ inst \in [st : {"fresh", "open", "dead"}, outer : BOOLEAN]
           /\ ev = [op |-> "init", out |-> "ok", works |-> FALSE]
           /\ IndInv
=============================================================================
