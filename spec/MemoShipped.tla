---------------------------- MODULE MemoShipped ----------------------------
(***************************************************************************)
(* Mechanism model of the conversion planner's memoisation AS SHIPPED:     *)
(* functools.lru_cache on _find_path (and _plan_conversion) keyed on       *)
(* (start, end), filled by every query - including the empty path of a     *)
(* failed search - and never invalidated by Unit.equals().                 *)
(* InvalidateOnDeclare = TRUE models the repair (cache_clear in equate /   *)
(* translate).  Used for non-vacuity: with FALSE, TLC must find the        *)
(* query-fail, declare, query history that violates C08_Function.          *)
(***************************************************************************)
EXTENDS Integers, Sequences, FiniteSets, TLC
CONSTANTS Node, Edges, InvalidateOnDeclare
VARIABLES decl, memo, ev
vars == <<decl, memo, ev>>
Declared == {decl[i] : i \in 1..Len(decl)}
Adj(n) == {e[2] : e \in {d \in Declared : d[1] = n}} \cup {e[1] : e \in {d \in Declared : d[2] = n}}
RECURSIVE Reach(_, _)
Reach(front, done) == LET nxt == (UNION {Adj(n) : n \in front}) \ (done \cup front)
                      IN IF nxt = {} THEN done \cup front ELSE Reach(nxt, done \cup front)
F(u, v) == IF v \in Reach({u}, {}) THEN "ok" ELSE "CNF"
Init == decl = <<>> /\ memo = << >> /\ ev = [op |-> "init", u |-> "", v |-> "", r |-> ""]
Declare(e) == /\ e \notin Declared
              /\ decl' = Append(decl, e)
              /\ memo' = IF InvalidateOnDeclare THEN << >> ELSE memo
              /\ ev' = [op |-> "declare", u |-> e[1], v |-> e[2], r |-> ""]
Query(u, v) == LET k == <<u, v>>
                   r == IF k \in DOMAIN memo THEN memo[k] ELSE F(u, v)     \* a cache hit wins
               IN /\ memo' = IF k \in DOMAIN memo THEN memo ELSE memo @@ (k :> r)
                  /\ ev' = [op |-> "query", u |-> u, v |-> v, r |-> r]
                  /\ UNCHANGED decl
Next == (\E e \in Edges : Declare(e)) \/ (\E u, v \in Node : u # v /\ Query(u, v))
Spec == Init /\ [][Next]_vars
C08_Function == ev.op = "query" => ev.r = F(ev.u, ev.v)
NoStale == \A k \in DOMAIN memo : memo[k] = F(k[1], k[2])
=============================================================================
