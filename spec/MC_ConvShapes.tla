---------------------------- MODULE MC_ConvShapes ----------------------------
(* C04 / C05 / C07: exhaustive enumeration of conversion SHAPES over the synthetic, exactly   *)
(* consistent system S1.  TLC is the enumerator and the exact-arithmetic oracle: for every   *)
(* ordered pair of equal-dimension units within the bounds it exports the pair and the ratio *)
(* of their sizes (a prime-exponent vector) solved from the declarations.                    *)
(* VERIF_SUBSET (C07): bit mask of a 6-declaration subset that is left UNdeclared, giving    *)
(* partially connected systems; sizes are then not used (only outcome classes are judged).   *)
EXTENDS Conversions, Json, IOUtils

EnvInt(name, default) == IF name \in DOMAIN IOEnv THEN atoi(IOEnv[name]) ELSE default
MaxE1   == EnvInt("VERIF_MAXE1", 2)     \* |exponent| bound for one-factor sides
MaxE2   == EnvInt("VERIF_MAXE2", 1)     \* |exponent| bound for two-factor sides
MaxE3   == EnvInt("VERIF_MAXE3", 0)     \* |exponent| bound for three-factor sides (0 = none)
Prefixed == EnvInt("VERIF_PREFIXED", 0)

MCFund == {"L", "T", "M", "I"}
BaseSeq == <<"ma", "mc", "md", "sa", "gb", "gc", "aa", "fa", "ea", "ra", "pa", "mb", "sb", "ga", "pb", "va", "ia", "ib", "la", "gd", "pc">>
\* the units that pairs are enumerated over (a prefix of BaseSeq; all declarations stay in force)
EnumBase == {BaseSeq[i] : i \in 1..EnvInt("VERIF_NENUM", 21)}
MCBase == {BaseSeq[i] : i \in 1..Len(BaseSeq)}
D(l, t, m, i) == [L |-> l, T |-> t, M |-> m, I |-> i]
MCbdim == [b \in MCBase |->
   CASE b \in {"ma", "mb", "mc", "md"} -> D(1, 0, 0, 0)
     [] b \in {"sa", "sb"}       -> D(0, 1, 0, 0)
     [] b \in {"ga", "gb", "gc", "gd"} -> D(0, 0, 1, 0)
     [] b = "aa"                 -> D(1, -2, 0, 0)      \* acceleration-like (g-force)
     [] b = "fa"                 -> D(1, -2, 1, 0)      \* force-like base unit (pound-force)
     [] b = "ea"                 -> D(2, -2, 1, 0)      \* energy-like (calorie)
     [] b \in {"pa", "pb", "pc"} -> D(2, -3, 1, 0)      \* power-like (horsepower, donkeypower, a BTU-per-hour-like one)
     [] b = "ra"                 -> D(2, 0, 0, 0)       \* area-like (acre)
     [] b = "va"                 -> D(3, 0, 0, 0)       \* volume-like (liter)
     [] b \in {"ia", "ib"}       -> D(0, 0, 0, 1)       \* information-like alias pair
     [] b = "la"                 -> D(0, -2, 1, 0)]     \* energy per area (langley)
Bag(S) == [b \in MCBase |-> IF \E x \in S : x[1] = b THEN (CHOOSE x \in S : x[1] = b)[2] ELSE 0]
C(l, pv, p, S) == [l |-> l, lp |-> 0, pv |-> pv, p |-> p, r |-> Bag(S)]
CL(l, lp, pv, p, S) == [l |-> l, lp |-> lp, pv |-> pv, p |-> p, r |-> Bag(S)]
MCCands == <<
  C("mb", <<-2, 0, 0>>, 0, {<<"ma", 1>>}),                         \*  1  mb = 0.25 ma
  C("mc", <<2, 1, 0>>, 0, {<<"mb", 1>>}),                          \*  2  mc = 12 mb
  C("mc", <<0, 1, 0>>, 0, {<<"ma", 1>>}),                          \*  3  mc = 3 ma           (redundant)
  C("sb", <<2, 1, 1>>, 0, {<<"sa", 1>>}),                          \*  4  sb = 60 sa
  C("gb", <<3, 0, 3>>, 0, {<<"ga", 1>>}),                          \*  5  gb = 1000 ga
  C("gc", <<-1, 0, 0>>, 0, {<<"gb", 1>>}),                         \*  6  gc = 0.5 gb
  C("aa", <<1, 0, 1>>, 0, {<<"ma", 1>>, <<"sa", -2>>}),            \*  7  aa = 10 ma/sa^2
  C("fa", <<0, 0, 0>>, 0, {<<"gc", 1>>, <<"aa", 1>>}),             \*  8  fa = 1 gc*aa
  C("fa", <<0, 0, 1>>, 0, {<<"gb", 1>>, <<"ma", 1>>, <<"sa", -2>>}),   \*  9  fa = 5 newton-likes  (redundant)
  C("ea", <<2, 0, 0>>, 0, {<<"gb", 1>>, <<"ma", 2>>, <<"sa", -2>>}),   \* 10  ea = 4 joule-likes
  C("pa", <<2, 0, 3>>, 0, {<<"mc", 1>>, <<"fa", 1>>, <<"sa", -1>>}),   \* 11  pa = 500 mc*fa/sa
  C("pb", <<0, -1, 0>>, 0, {<<"pa", 1>>}),                         \* 12  pb = 1/3 pa
  C("ra", <<4, 0, 2>>, 0, {<<"mc", 2>>}),                          \* 13  ra = 400 mc^2
  C("ra", <<4, 2, 2>>, 0, {<<"ma", 2>>}),                          \* 14  ra = 3600 ma^2      (redundant)
  C("va", <<-3, 0, -3>>, 0, {<<"ma", 3>>}),                        \* 15  va = 0.001 ma^3
  C("ib", <<0, 0, 0>>, 0, {<<"ia", 1>>}),                          \* 16  ib = 1 ia
  C("la", <<6, 0, 4>>, 0, {<<"gb", 1>>, <<"sa", -2>>}),            \* 17  la = 40000 joule-likes / ma^2
  C("gb", <<0, 0, 0>>, 3, {<<"ga", 1>>}),                          \* 18  gb = 1 kilo-ga      (redundant, prefixed)
  CL("gd", 3, <<1, 0, 0>>, 0, {<<"gb", 1>>}),                      \* 19  1 kilo-gd = 2 gb     (prefixed LEFT side)
  C("md", <<0, 0, 1>>, 0, {<<"mc", 1>>}),                          \* 20  md = 5 mc ONLY: two hops from ma and mb
  C("pc", <<0, 1, 0>>, 0, {<<"ea", 1>>, <<"sb", -1>>}) >>          \* 21  pc = 3 ea/sb: a quotient over the OTHER time unit than pa's
MCRoots == {"ma", "sa", "ga", "ia"}

Mask == EnvInt("VERIF_SUBSET", 0)
\* dropping 13 AND 14 leaves the area-like unit without any definition; dropping 8 AND 9 the force-like one
Droppable == <<13, 6, 8, 9, 11, 14>>
Bit(k) == (Mask \div (2 ^ (k - 1))) % 2
Dropped == {Droppable[k] : k \in {j \in 1..6 : Bit(j) = 1}}
AllDecl == [i \in 1..(Len(MCCands) - Cardinality(Dropped)) |->
              CHOOSE c \in 1..Len(MCCands) : c \notin Dropped /\ Cardinality({d \in 1..c : d \notin Dropped}) = i]

Idx(b) == CHOOSE i \in 1..Len(BaseSeq) : BaseSeq[i] = b
E1 == {e \in -MaxE1..MaxE1 : e # 0}
E2 == {e \in -MaxE2..MaxE2 : e # 0}
E3 == {e \in -MaxE3..MaxE3 : e # 0}
Bags1 == {Bag({<<x, e>>}) : x \in EnumBase, e \in E1}
Bags2 == {Bag({<<x, e1>>, <<y, e2>>}) : x \in EnumBase, y \in EnumBase, e1 \in E2, e2 \in E2} \ Bags1
Bags2Ord == {f \in Bags2 : Cardinality(Support(f)) = 2}
Triples == {s \in SUBSET EnumBase : Cardinality(s) = 3 /\ \E x \in s : x \in {"ma", "mc", "sa", "gb", "fa"}}
Bags3 == IF MaxE3 = 0 THEN {} ELSE
   UNION {{[b \in MCBase |-> IF b \in s THEN g[b] ELSE 0] : g \in [s -> E3]} : s \in Triples}
\* the empty bag is One: dimensionless compounds convert to and from it
AllBags == Bags1 \cup Bags2Ord \cup Bags3 \cup {ZeroBag}
UDim == [f \in AllBags |-> DimOf(f)]
\* equal-dimension classes, computed once (constant level)
Classes == {{g \in AllBags : UDim[g] = UDim[f]} : f \in AllBags}
FullSizes == Solve([r \in MCRoots |-> PV0], {AllDecl[i] : i \in 1..Len(AllDecl)})
SrcP == IF Prefixed = 1 THEN {0, 3} ELSE {0}
DstP == IF Prefixed = 1 THEN {0, -3, 3} ELSE {0}

MCInit == decl = AllDecl /\ hist = <<>> /\ ev = Ev("init", 0, U(0, ZeroBag), U(0, ZeroBag), "ok", PV0, 0)
\* a base unit that no declaration of this configuration mentions cannot be related to anything: if it
\* survives in the net bag u/v the conversion is IMPOSSIBLE and the spec prescribes ConversionNotFound
DeclSet == {AllDecl[i] : i \in 1..Len(AllDecl)}
Isolated(b) == \A i \in DeclSet : b \notin Mentioned(MCCands[i])
Impossible(f, g) == \E b \in MCBase : f[b] # g[b] /\ Isolated(b)
Case(f, g, p, q) ==
  /\ (f # g \/ (Prefixed = 1 /\ f # ZeroBag))      \* self-conversions only in their prefixed variants
  /\ ev' = Ev("convert", 0, U(p, f), U(q, g), IF Impossible(f, g) THEN "CNF" ELSE "ok-or-CNF",
              IF Mask = 0 THEN Add(USize(U(p, f), FullSizes), Neg(USize(U(q, g), FullSizes))) ELSE PV0, 1)
  /\ UNCHANGED <<decl, hist>>
MCNext == TLCGet("level") = 1 /\ \E cl \in Classes : \E f \in cl, g \in cl, p \in SrcP, q \in DstP : Case(f, g, p, q)
\* C05: triples (source, intermediate, target); the intermediate travels in field `w` of the export
Case3(f, h, g) ==
  /\ f # g /\ f # h /\ h # g
  /\ ev' = Ev("via", 0, U(0, f), U(0, g), "ok-or-CNF", Add(USize(U(0, f), FullSizes), Neg(USize(U(0, g), FullSizes))), 1)
  /\ hist' = <<U(0, h)>>
  /\ UNCHANGED decl
MCNext3 == TLCGet("level") = 1 /\ \E cl \in Classes : \E f \in cl, h \in cl, g \in cl : Case3(f, h, g)
ExportCase3 == ev.op = "via" => PrintT("@@E " \o ToJson([ev |-> ev, w |-> hist[1]]))

ExportCase == ev.op = "convert" => PrintT("@@E " \o ToJson(ev))
ExportSystem == ev.op = "init" => PrintT("@@SYS " \o ToJson([base |-> BaseSeq, bdim |-> MCbdim, cands |-> MCCands, decl |-> decl]))
\* the oracle is sound only if the declared system is exactly consistent and fully sized
S1Consistent == ev.op = "init" /\ Mask = 0 => (Consistent /\ DOMAIN FullSizes = MCBase)
\* C05 at the level of the statement: sizes give a homomorphism, so round trips and routes compose
C05_Model == ev.op = "convert" /\ Mask = 0 =>
               ev.pv = Neg(Add(USize(ev.v, FullSizes), Neg(USize(ev.u, FullSizes))))
=============================================================================
