CONSTANT Roots <- LRoots
INIT TInit
NEXT TNext
VIEW View
INVARIANT ReportDone
CHECK_DEADLOCK FALSE
