CONSTANTS
  Dims <- DDims
  Prefixes <- DPrefixes
  Exps <- MCExps
INIT Init
NEXT MCNext
INVARIANT ExportCase
INVARIANT Laws
CHECK_DEADLOCK FALSE
