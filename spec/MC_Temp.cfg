CONSTANTS
  Scales <- MCScales
  SrcP <- MCSrcP
  DstP <- MCDstP
  Mags <- MCMags
  Kinds <- MCKinds
INIT Init
NEXT MCNext
INVARIANT ExportCase
INVARIANT Theorems
CHECK_DEADLOCK FALSE
