---------------------------- MODULE Uncertainty ----------------------------
(***************************************************************************)
(* C14: first-order Gaussian propagation for independent inputs.           *)
(* A measurement is [x |-> Pool quantity, s |-> uncertainty (rational, in  *)
(* the quantity's unit), plain |-> TRUE for a bare Quantity (s = 0)].      *)
(* Its physical variance is s^2 * size(u)^2, carried like Phys as          *)
(* [r, pv].  The prescribed result of an operation is the same operation   *)
(* on the measurands and                                                   *)
(*    + -  : va + vb            *  : b^2 va + a^2 vb                       *)
(*    /    : va / b^2 + a^2 vb / b^4        ** n : n^2 a^(2n-2) va         *)
(* all in physical (SI) terms, hence independent of the units written.     *)
(***************************************************************************)
EXTENDS Quantities
CONSTANTS Meas, Exps     \* Meas: sequence of [q |-> index into Pool, s |-> rational, plain |-> BOOLEAN]

MPhys(k) == Phys(Pool[Meas[k].q])
MVar(k)  == [r |-> RMul(Meas[k].s, Meas[k].s), pv |-> PScale(2, USize(Pool[Meas[k].q].u))]
IsZero(x) == x.r[1] = 0
Sq(x) == PhMul(x, x)
\* the prescribed variance is var + var2 (two terms on possibly very different scales are not added inside TLC)
UEv2(op, i, j, n, out, val, var, var2) ==
  [op |-> op, i |-> i, j |-> j, n |-> n, out |-> out, dim |-> DZero, dec |-> FALSE, unit |-> UnitOne, phys |-> val, truth |-> FALSE, var |-> var, var2 |-> var2]
UEv(op, i, j, n, out, val, var) == UEv2(op, i, j, n, out, val, var, NoPhys)

UInit == ev = UEv("init", 0, 0, 0, "ok", NoPhys, NoPhys)

\* at least one side is a real Measurement (two plain quantities are C03/C06's business)
UBin(op, i, j) == LET a == MPhys(i) b == MPhys(j) va == MVar(i) vb == MVar(j) IN
  /\ ~(Meas[i].plain /\ Meas[j].plain)
  /\ (op \in {"add", "sub"} => Dim(Pool[Meas[i].q].u) = Dim(Pool[Meas[j].q].u))
  /\ (op = "div" => ~IsZero(b))
  /\ ev' = UEv2(op, i, j, 0, "ok",
               CASE op = "add" -> PhAdd(a, b) [] op = "sub" -> PhSub(a, b) [] op = "mul" -> PhMul(a, b) [] op = "div" -> PhDiv(a, b),
               CASE op \in {"add", "sub"} -> va
                 [] op = "mul" -> PhAdd(PhMul(Sq(b), va), PhMul(Sq(a), vb))
                 [] op = "div" -> PhAdd(PhDiv(va, Sq(b)), PhDiv(PhMul(Sq(a), vb), Sq(Sq(b)))),
               IF op \in {"add", "sub"} THEN vb ELSE NoPhys)
UPowM(i, n) == LET a == MPhys(i) va == MVar(i) IN
  /\ ~Meas[i].plain
  /\ (n < 1 => ~IsZero(a))
  /\ ev' = UEv("pow", i, 0, n, "ok", PhPow(a, n),
               IF n = 0 THEN [r |-> <<0, 1>>, pv |-> PV0]
               ELSE PhMul([r |-> <<n * n, 1>>, pv |-> PV0], PhMul(PhPow(a, 2 * n - 2), va)))
=============================================================================
