---------------------------- MODULE MC_JsonCodec ----------------------------
EXTENDS JsonCodec, Json
MCNext == TLCGet("level") <= 5 /\ Next
View == <<installed, stack, inst>>
Abs == [installed |-> installed, stack |-> stack, inst |-> inst]
Export == PrintT("@@T " \o ToJson([from |-> Abs, ev |-> ev', to |-> Abs']))
ExportInit == (ev.op = "init") => PrintT("@@I " \o ToJson(Abs))
=============================================================================
