---------------------------- MODULE MC_Names ----------------------------
(* C19: all orders of anonymous construction, definition, derivation and aliasing over a small  *)
(* universe, including every failing call (taken name, taken symbol, malformed symbol in any     *)
(* argument position).  Transitions are exported for replay on the real library.                 *)
EXTENDS Names, Json, IOUtils
VARIABLES asked, dumped
EnvInt(name, default) == IF name \in DOMAIN IOEnv THEN atoi(IOEnv[name]) ELSE default
Depth == EnvInt("VERIF_DEPTH", 2)
MCClasses == {"unit", "prefix", "dimension"}
MCKeys == [c \in MCClasses |-> IF c = "unit" THEN {"u1", "u2", "sq1"} ELSE IF c = "prefix" THEN {"p7", "p8", "p0"} ELSE {"d1", "d2", "d3"}]
\* VERIF_DIMS = 1: the dimension registry on its own (Dimension.define creates a fundamental dimension d2 / d3,
\* Dimension.derive names a dimension d1 that came about anonymously by arithmetic, Dimension.named looks up)
DimMode == EnvInt("VERIF_DIMS", 0)
MCNameTok == {"", "na", "nb"}
MCSymTok == {"", "sa", "sb", "na", "so"}   \* "na" is also a NAME: a symbol lookup may fall back to the name registry;
                                           \* "so" contains a Unicode compatibility character (the OHM SIGN): stored and looked up verbatim
MCBadSyms == {"s c", "#5"}          \* a symbol with a space; a symbol that is not a string (the integer 5)
N1 == MCNameTok \ {""}
MCMaybeSyms == {"s~c"}               \* a symbol with a TAB: accepted today; rejecting it would be fine too, but atomically
S1 == (MCSymTok \ {""}) \cup MCBadSyms \cup MCMaybeSyms
ScaleQ(k, n, s) == IF ~Valid("unit", k, n, s) THEN Refuse("scale-q", "unit", k, n, s)
                   ELSE (Commit("scale-q", "unit", k, n, s) \/ Refuse("scale-q", "unit", k, n, s))
Step ==
  \/ \E k \in {"u1", "u2"}, n \in N1, s \in S1 : Declare("define", "unit", k, n, s, TRUE)
  \/ \E k \in known["unit"], n \in N1, s \in S1 : Declare("derive", "unit", k, n, s, FALSE)
  \/ \E k \in known["unit"], n \in MCNameTok, s \in MCSymTok \cup MCBadSyms \cup MCMaybeSyms : (n # "" \/ s # "") /\ Declare("alias", "unit", k, n, s, FALSE)
  \/ "u1" \in known["unit"] /\ "sq1" \notin known["unit"] /\ Anon("unit", "sq1")
  \* a prefix is declared by constructing it with a name and/or symbol; it has one name slot, so the model declares
  \* each at most once (possibly after it came about anonymously)
  \* ("p0" is a prefix with exponent 0: the identity prefix, which always exists - naming IT is a declaration like any other)
  \/ \E k \in {"p7", "p8", "p0"}, n \in MCNameTok, s \in MCSymTok :
        (n # "" \/ s # "") /\ NamesOf("prefix", k) = <<>> /\ SymsOf("prefix", k) = <<>> /\ Declare("named", "prefix", k, n, s, FALSE)
  \/ \E k \in {"p7", "p8"} : k \notin known["prefix"] /\ Anon("prefix", k)
  \/ \E x \in {"sa", "na", "so"} : <<"unit", x>> \notin asked /\ Cardinality(asked) < 2 /\ Lookup("unit", x)
  \* Dimension.scale(zero, name, symbol) defines a unit and its zero point in one call: with a sound zero it is a
  \* definition like any other; with a QUESTIONABLE zero (a quantity of another dimension) the library may accept or
  \* refuse it - atomically either way
  \/ \E k \in {"u1", "u2"}, n \in N1, s \in {"sa", "sb"} : Declare("scale", "unit", k, n, s, TRUE)
  \/ \E k \in {"u1", "u2"}, n \in N1, s \in {"sa", "sb"} : k \notin known["unit"] /\ ScaleQ(k, n, s)
  \/ <<"prefix", "sa">> \notin asked /\ Cardinality(asked) < 2 /\ Lookup("prefix", "sa")
DimStep ==
  \/ \E k \in {"d2", "d3"}, n \in N1 :
        \* (while d2 exists only anonymously it IS the next fundamental dimension: no other one is defined meanwhile)
        /\ (k = "d3" => ("d2" \notin known["dimension"] \/ NamesOf("dimension", "d2") # <<>>))
        /\ Declare("dim-define", "dimension", k, n, "", TRUE)
  \* the exponents a new fundamental dimension will get may already exist as an ANONYMOUS dimension (built directly or
  \* decoded from a document written by a process that had defined it): defining it then must still bind its name
  \/ "d2" \notin known["dimension"] /\ Anon("dimension", "d2")
  \/ \E n \in N1 : "d2" \in known["dimension"] /\ NamesOf("dimension", "d2") = <<>> /\ Declare("dim-define", "dimension", "d2", n, "", FALSE)
  \/ \E k \in known["dimension"], n \in N1 : NamesOf("dimension", k) = <<>> /\ Declare("dim-derive", "dimension", k, n, "", FALSE)
  \/ "d1" \notin known["dimension"] /\ Anon("dimension", "d1")
  \/ \E x \in N1 : <<"dimension", x>> \notin asked /\ Cardinality(asked) < 2 /\ Lookup("dimension", x)
\* VERIF_DIMS = 2: serialisation snapshots in the middle of naming.  Snap pickles an object as it is now; Restore loads
\* the snapshot later.  Both are no-ops on every registry and on what every object reports - in particular a Restore
\* must not REWIND a name or symbol that was declared after the snapshot was taken.  `dumped` holds what each snapshot
\* captured, so that the order of snapshots and declarations is part of the state.
Snap(c, k) == LET d == [c |-> c, k |-> k, n |-> NamesOf(c, k), s |-> SymsOf(c, k)] IN
  /\ k \in known[c] /\ d \notin dumped /\ dumped' = dumped \cup {d}
  /\ ev' = Ev("snap", c, k, "", ToString(Len(d.n) + Len(d.s)), "ok") /\ UNCHANGED regs
Restore(d) ==
  /\ ev' = Ev("restore", d.c, d.k, "", ToString(Len(d.n) + Len(d.s)), "ok") /\ UNCHANGED regs /\ UNCHANGED dumped
SnapDecl ==
  \/ Declare("define", "unit", "u1", "na", "sa", TRUE)
  \/ \E n \in {"", "nb"}, s \in {"", "sb"} : (n # "" \/ s # "") /\ "u1" \in known["unit"] /\ Declare("alias", "unit", "u1", n, s, FALSE)
  \/ "p7" \notin known["prefix"] /\ Anon("prefix", "p7")
  \/ "p7" \in known["prefix"] /\ NamesOf("prefix", "p7") = <<>> /\ Declare("named", "prefix", "p7", "na", "sa", FALSE)
  \/ "d1" \notin known["dimension"] /\ Anon("dimension", "d1")
  \/ "d1" \in known["dimension"] /\ NamesOf("dimension", "d1") = <<>> /\ Declare("dim-derive", "dimension", "d1", "na", "", FALSE)
SnapStep ==
  \/ SnapDecl /\ dumped' = dumped
  \/ \E c \in MCClasses : \E k \in known[c] : Cardinality(dumped) < 2 /\ Snap(c, k)
  \/ \E d \in dumped : Restore(d)
NoSnap == dumped' = dumped
MCNext == TLCGet("level") <= Depth
          /\ (IF DimMode = 1 THEN DimStep /\ NoSnap ELSE IF DimMode = 2 THEN SnapStep ELSE Step /\ NoSnap)
          /\ asked' = (IF ev'.op = "lookup" THEN asked \cup {<<ev'.c, ev'.s>>} ELSE asked)
\* lookups leave the registries alone, so (like C08's queries) they are part of the observed history: `asked`
\* is kept in the VIEW through ev only for the step itself; sequences lookup -> declare -> lookup are reached
\* because a lookup's successor state differs from its predecessor by the `asked` set
View == <<regs, asked, dumped>>
Abs == [known |-> known, names |-> names, syms |-> syms, byName |-> byName, bySym |-> bySym, asked |-> asked, dumped |-> dumped]
MCInit == Init /\ asked = {} /\ dumped = {}
Export == PrintT("@@T " \o ToJson([from |-> Abs, ev |-> ev', to |-> Abs']))
ExportInit == (ev.op = "init") => PrintT("@@I " \o ToJson(Abs))
=============================================================================
