CONSTANTS
  Base <- MCBase
  bdim <- MCbdim
  Fund <- MCFund
  Cands <- MCCands
  Roots <- MCRoots
INIT Init
NEXT MCNext
INVARIANT ExportHist
INVARIANT C07_Class
INVARIANT C04_Value
INVARIANT C08_Function
CHECK_DEADLOCK FALSE
