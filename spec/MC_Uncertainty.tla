---------------------------- MODULE MC_Uncertainty ----------------------------
EXTENDS Uncertainty, Json, IOUtils
EnvInt(name, default) == IF name \in DOMAIN IOEnv THEN atoi(IOEnv[name]) ELSE default
Size == EnvInt("VERIF_UPOOL", 1)
MCFund == {"L", "T"}
BaseSeq == <<"ma", "mb", "sa">>
MCBase == {BaseSeq[i] : i \in 1..Len(BaseSeq)}
MCbdim == [b \in MCBase |-> IF b = "sa" THEN [L |-> 0, T |-> 1] ELSE [L |-> 1, T |-> 0]]
MCbsize == [b \in MCBase |-> IF b = "mb" THEN <<-2, 0, 0>> ELSE <<0, 0, 0>>]
Bag(S) == [b \in MCBase |-> IF \E x \in S : x[1] = b THEN (CHOOSE x \in S : x[1] = b)[2] ELSE 0]
Decls == << [l |-> "mb", e |-> -2, r |-> Bag({<<"ma", 1>>})] >>
UU(p10, p2, S) == [p10 |-> p10, p2 |-> p2, f |-> Bag(S)]
MCUnits == << UU(0, 0, {<<"ma", 1>>}), UU(0, 0, {<<"mb", 1>>}), UU(3, 0, {<<"ma", 1>>}), UU(-3, 0, {<<"ma", 1>>}), UU(0, 0, {<<"sa", 1>>}) >>
Xs == IF Size = 1 THEN << <<-3, 1>>, <<0, 1>>, <<2, 1>>, <<1, 2>> >> ELSE << <<-3, 1>>, <<-1, 1>>, <<0, 1>>, <<1, 1>>, <<2, 1>>, <<3, 1>>, <<1, 2>> >>
Ss == IF Size = 1 THEN << <<0, 1>>, <<1, 2>>, <<2, 1>> >> ELSE << <<0, 1>>, <<1, 2>>, <<1, 1>>, <<2, 1>> >>
NX == Len(Xs)
NS == Len(Ss)
\* pool of quantities: every unit x every measurand value (floats, so that halves are exact)
MCPool == [x \in 1..(Len(MCUnits) * NX) |-> [m |-> Xs[((x - 1) % NX) + 1], k |-> "float", u |-> MCUnits[((x - 1) \div NX) + 1]]]
\* measurements: every pool quantity x every uncertainty, plus every pool quantity as a plain Quantity
MCMeas == [k \in 1..(Len(MCPool) * (NS + 1)) |->
             LET q == ((k - 1) \div (NS + 1)) + 1 s == ((k - 1) % (NS + 1)) IN
             IF s = 0 THEN [q |-> q, s |-> <<0, 1>>, plain |-> TRUE] ELSE [q |-> q, s |-> Ss[s], plain |-> FALSE]]
MCExps == -4..4
M == 1..Len(MCMeas)
MCNext == TLCGet("level") = 1 /\
  \/ \E i \in M, j \in M, op \in {"add", "sub", "mul", "div"} : UBin(op, i, j)
  \/ \E i \in M, n \in MCExps : UPowM(i, n)
ExportCase == ev.op # "init" => PrintT("@@E " \o ToJson(ev))
ExportSystem == ev.op = "init" => PrintT("@@SYS " \o ToJson([base |-> BaseSeq, bdim |-> MCbdim, bsize |-> MCbsize,
                      decls |-> Decls, pool |-> MCPool, units |-> MCUnits, scalars |-> <<>>, meas |-> MCMeas]))
=============================================================================
