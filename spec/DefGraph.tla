---------------------------- MODULE DefGraph ----------------------------
(***************************************************************************)
(* C09: the definitions shipped with the library are mutually consistent   *)
(* and connected to SI.                                                    *)
(*                                                                         *)
(* Constants are the declarations intercepted from Unit.equals() while the *)
(* shipped modules import.  A declaration  L = k * R  (L, R arbitrary       *)
(* products of base units, prefixes folded into k) is the linear           *)
(* constraint  SUM_{<<b,e>> in t} e * size[b] = lat  with t the sparse bag *)
(* L / R and lat = round(ln(k) / 1e-6) on the integer log-lattice:         *)
(* Decls[i] = [lat, t].                                                    *)
(* Sizes are SOLVED INSIDE THE SPEC from the declarations only, starting   *)
(* from the coherent SI base units (size 0): a declaration whose units are *)
(* all sized but one defines that one.  Then                               *)
(*  C09_Consistent: every declaration - tree edge or not - agrees with the *)
(*     solution within 10 lattice units (1e-5) per unit of exponent degree *)
(*     plus the quantisation error; since all edges agree with ONE         *)
(*     potential, every cycle closes within the summed tolerance;          *)
(*  C09_Grounded: every base unit some declaration mentions gets a size,   *)
(*     i.e. is connected to SI through the declarations.                   *)
(***************************************************************************)
EXTENDS Integers, Sequences, FiniteSets, TLC
CONSTANTS Decls, Roots, Bases,
          Classes     \* sets of named base units of one dimension (for the pairwise ratios prescribed to C04 on shipped definitions)
VARIABLES size, pending, ev
vars == <<size, pending, ev>>

Abs(x) == IF x < 0 THEN -x ELSE x
Mentioned(d) == {p[1] : p \in d.t}
RECURSIVE SumBag(_, _)
SumBag(S, sz) == IF S = {} THEN 0 ELSE LET p == CHOOSE x \in S : TRUE IN p[2] * sz[p[1]] + SumBag(S \ {p}, sz)
RECURSIVE Degree(_)
Degree(S) == IF S = {} THEN 0 ELSE LET p == CHOOSE x \in S : TRUE IN Abs(p[2]) + Degree(S \ {p})
Unsized(d, sz) == Mentioned(d) \ DOMAIN sz
ExpOf(d, b) == LET S == {p \in d.t : p[1] = b} IN IF S = {} THEN 0 ELSE (CHOOSE p \in S : TRUE)[2]

Init == size = [b \in Roots |-> 0] /\ pending = 1..Len(Decls) /\ ev = [op |-> "init", i |-> 0, b |-> "", res |-> 0, to |-> ""]
\* one solving step per transition: the first usable declaration defines one more unit
Usable == {i \in pending : LET d == Decls[i] IN
             /\ Cardinality(Unsized(d, size)) = 1
             /\ ExpOf(d, CHOOSE b \in Unsized(d, size) : TRUE) \in {1, -1}}
Define == /\ Usable # {}
          /\ LET i == CHOOSE j \in Usable : \A k \in Usable : j <= k
                 d == Decls[i]
                 x == CHOOSE b \in Unsized(d, size) : TRUE
                 rest == SumBag({p \in d.t : p[1] # x}, size)
                 v == IF ExpOf(d, x) = 1 THEN d.lat - rest ELSE rest - d.lat
             IN /\ size' = size @@ (x :> v) /\ pending' = pending \ {i}
                /\ ev' = [op |-> "define", i |-> i, b |-> x, res |-> 0, to |-> ""]
Done == Usable = {}
\* once the sizes are solved: every ordered pair of named units of one dimension, with the ratio the definitions give
Pair(a, b) == /\ a # b /\ a \in DOMAIN size /\ b \in DOMAIN size
              /\ ev' = [op |-> "pair", i |-> size[a] - size[b], b |-> a, res |-> 0, to |-> b]
              /\ UNCHANGED <<size, pending>>
\* (the cheap guard first: pair states have no successors, and Done is evaluated once per state, not per candidate)
Next == Define \/ (ev.op # "pair" /\ Done /\ \E cl \in Classes : \E a \in cl, b \in cl : Pair(a, b))

Residual(d, sz) == SumBag(d.t, sz) - d.lat
Tol(d) == 10 * Degree(d.t) + Cardinality(d.t) + 2
\* evaluated once the solution is complete
C09_Consistent == Done => \A i \in 1..Len(Decls) : LET d == Decls[i] IN
                     (Mentioned(d) \subseteq DOMAIN size) => Abs(Residual(d, size)) <= Tol(d)
C09_Grounded == Done => Bases \subseteq DOMAIN size
=============================================================================
