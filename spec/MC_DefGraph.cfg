CONSTANTS
  Decls <- DDecls
  Roots <- DRoots
  Bases <- DBases
  Classes <- DClasses
INIT Init
NEXT Next
INVARIANT Report
INVARIANT ExportPair
CHECK_DEADLOCK FALSE
