CONSTANTS
  Decls <- DDecls
  Roots <- DRoots
  Bases <- DBases
INIT Init
NEXT Next
INVARIANT Report
CHECK_DEADLOCK FALSE
