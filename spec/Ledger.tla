------------------------------ MODULE Ledger ------------------------------
(***************************************************************************)
(* The conversion ledger: what every OBSERVED public call on quantities    *)
(* must look like, given the equivalences declared so far.  It is the      *)
(* running (state-machine) generalisation of DefGraph: declarations arrive *)
(* one at a time (first the shipped ones, then the program's own), unit    *)
(* sizes are solved inside the spec on the integer log-lattice             *)
(* (lat(x) = round(ln x / 1e-6)), and every later conversion, arithmetic   *)
(* operation and comparison is judged against the sizes and against what   *)
(* was observed earlier in the same EPOCH (the interval between two        *)
(* declarations):                                                          *)
(*                                                                         *)
(*  C03  result dimension = the operator's law on the operand dimensions;  *)
(*       Decimal in => Decimal out; + and - return the left unit;          *)
(*       incommensurable +,-,<,in_unit raise, == is not True; never a      *)
(*       number.                                                           *)
(*  C04  a conversion that returns carries the requested unit and          *)
(*       ln(result/source) = SUM t_b * size[b] + lat(prefixes)  within     *)
(*       10 lattice units (1e-5) per unit of exponent degree.              *)
(*  C05  zero -> zero, sign preserved, own unit succeeds with ratio 1,     *)
(*       the reverse conversion observed in the same epoch is the inverse. *)
(*  C06/C12 the SI value of a*b, a/b, a**n, root is the operation on the   *)
(*       SI values; == and < away from ties agree with the SI values.      *)
(*  C07  only ConversionNotFound escapes from converting; none of          *)
(*       AssertionError KeyError ZeroDivisionError IndexError              *)
(*       RecursionError escapes from converting, adding, subtracting or    *)
(*       comparing.                                                        *)
(*  C08  within an epoch the outcome of a conversion is a function of the  *)
(*       pair: same ratio when repeated, never ok-then-fail or             *)
(*       fail-then-ok.                                                     *)
(*                                                                         *)
(* Whether a conversion between commensurable compound units SUCCEEDS is   *)
(* not prescribed (the properties do not state it); offset scales are      *)
(* excluded from every ratio clause (C10's subject); values are judged     *)
(* only when every base unit involved has a solved, untainted size.        *)
(*                                                                         *)
(* Units are descriptors U = [k: key text, pl: lat(prefix), t: <<<<base,   *)
(* exp>>,...>>, d: <<dimension exponents>>, sc: has an offset-scale base]. *)
(* Quantities are Q = [u: U, mk: kind, lm: lat(|magnitude|), hm: lm valid, *)
(* sg: sign].                                                              *)
(***************************************************************************)
EXTENDS Integers, Sequences, FiniteSets, TLC
CONSTANT Roots              \* base units whose size is 0 by definition (coherent SI base units)
VARIABLES size,             \* [base -> lattice log-size]: solved so far
          taint,            \* bases whose declarations contradict each other (values involving them are not judged)
          via,              \* [base -> the bases its size was derived through] (transitively)
          pend,             \* declarations that could not be used yet (more than one unknown)
          shipped,          \* the bases sized when the program started (the library's own)
          seen,             \* [<<ka, kb>> -> observed lattice ratio] in this epoch
          oks, fails,       \* pairs converted / refused in this epoch
          epoch
lvars == <<size, taint, via, pend, shipped, seen, oks, fails, epoch>>

Abs(x) == IF x < 0 THEN -x ELSE x
Forbidden == {"OTHER:AssertionError", "OTHER:KeyError", "OTHER:ZeroDivisionError", "OTHER:IndexError", "OTHER:RecursionError"}

\* ---- bags are sequences of <<base, exp>>
BasesOf(t) == {t[j][1] : j \in 1..Len(t)}
RECURSIVE SumT(_, _, _)
SumT(t, j, sz) == IF j > Len(t) THEN 0 ELSE t[j][2] * sz[t[j][1]] + SumT(t, j + 1, sz)
RECURSIVE DegT(_, _)
DegT(t, j) == IF j > Len(t) THEN 0 ELSE Abs(t[j][2]) + DegT(t, j + 1)
ExpIn(t, b) == LET J == {j \in 1..Len(t) : t[j][1] = b} IN IF J = {} THEN 0 ELSE t[CHOOSE j \in J : TRUE][2]
Sized(t, sz, tn) == BasesOf(t) \subseteq DOMAIN sz /\ BasesOf(t) \cap tn = {}

\* ---- solving: a declaration  SUM t_b * size[b] = lat  with exactly one unknown of exponent +-1 defines it
Unknown(d, sz) == BasesOf(d.t) \ DOMAIN sz
UsableD(d, sz) == Cardinality(Unknown(d, sz)) = 1 /\ ExpIn(d.t, CHOOSE b \in Unknown(d, sz) : TRUE) \in {1, -1}
Solve(d, sz) == LET x == CHOOSE b \in Unknown(d, sz) : TRUE
                    rest == SumT(SelectSeq(d.t, LAMBDA p : p[1] # x), 1, sz)
                IN  x :> (IF ExpIn(d.t, x) = 1 THEN d.lat - rest ELSE rest - d.lat)
ViaOf(d, sz, va) == LET x == CHOOSE b \in Unknown(d, sz) : TRUE
                        others == BasesOf(d.t) \ {x}
                    IN  x :> (others \cup UNION {va[b] : b \in others})
RECURSIVE Settle(_, _, _)
Settle(sz, pd, va) == LET U == {d \in pd : UsableD(d, sz)} IN
                      IF U = {} THEN [size |-> sz, pend |-> pd, via |-> va]
                      ELSE LET d == CHOOSE x \in U : TRUE IN Settle(sz @@ Solve(d, sz), pd \ {d}, va @@ ViaOf(d, sz, va))
\* everything whose size was derived through a base of T is as undefined as T
Downstream(T, va) == T \cup {y \in DOMAIN va : va[y] \cap T # {}}
ResidualD(d, sz) == SumT(d.t, 1, sz) - d.lat
TolD(d) == 10 * DegT(d.t, 1) + Len(d.t) + 2

Init == /\ size = [b \in Roots |-> 0] /\ via = [b \in Roots |-> {}] /\ taint = {} /\ pend = {} /\ shipped = {}
        /\ seen = <<>> /\ oks = {} /\ fails = {} /\ epoch = 0

NewEpoch == seen' = <<>> /\ oks' = {} /\ fails' = {} /\ epoch' = epoch + 1

\* Unit.equals(): d = [t, lat, ok] (ok = the literal is a positive finite number)
Declare(d) ==
  /\ NewEpoch /\ UNCHANGED shipped
  /\ IF ~d.ok THEN
        /\ taint' = taint \cup Downstream(BasesOf(d.t) \ (Roots \cup shipped), via) /\ UNCHANGED <<size, pend, via>>
     ELSE IF Unknown(d, size) = {} THEN
        \* a redundant declaration: it must agree with the others, or the sizes of the units it mentions (and of every
        \* unit defined through them) are not defined.  Among the library's own declarations that is C09's subject:
        \* nothing is tainted, the conversions show it.
        /\ IF shipped # {} /\ Abs(ResidualD(d, size)) > TolD(d)
           THEN LET own == BasesOf(d.t) \ shipped IN
                taint' = taint \cup Downstream(IF own # {} THEN own ELSE BasesOf(d.t) \ Roots, via)
           ELSE taint' = taint
        /\ UNCHANGED <<size, pend, via>>
     ELSE LET s == Settle(size, pend \cup {d}, via) IN
        \* (a unit defined through a tainted one is tainted)
        /\ size' = s.size /\ pend' = s.pend /\ via' = s.via /\ taint' = Downstream(taint, s.via)
\* Dimension.scale(): the bases named become offset scales; they share the size of their degree unit (ratio-1 edge)
DeclareScale(bs) == NewEpoch /\ UNCHANGED <<size, taint, via, pend, shipped>>
\* the program starts: everything sized so far is the library's own
Start == shipped' = DOMAIN size /\ UNCHANGED <<size, taint, via, pend, seen, oks, fails, epoch>>

\* ---- conversions:  e = [a: U, b: U, out, obs, ho (obs valid), zero, sign, same]
NetExpected(a, b, sz) == SumT(a.t, 1, sz) - SumT(b.t, 1, sz) + a.pl - b.pl
TolC(a, b) == 10 * (DegT(a.t, 1) + DegT(b.t, 1)) + Len(a.t) + Len(b.t) + 4
Ratioish(a, b) == ~a.sc /\ ~b.sc
JudgedC(e) == /\ e.ho /\ Ratioish(e.a, e.b) /\ Sized(e.a.t, size, taint) /\ Sized(e.b.t, size, taint)
ConvBad(e) ==       \* the set of violated clauses of a conversion that returned
  LET p == <<e.a.k, e.b.k>>  r == <<e.b.k, e.a.k>> IN
     {"C03:conv:incommensurable-not-rejected" : x \in {1} \cap (IF e.a.d # e.b.d THEN {1} ELSE {})}
  \cup {"C04:conv:unit-not-the-requested-one" : x \in IF ~e.same THEN {1} ELSE {}}
  \cup {"C05:conv:zero-not-to-zero" : x \in IF e.zero /\ ~e.sign /\ Ratioish(e.a, e.b) THEN {1} ELSE {}}
  \cup {"C05:conv:sign-not-preserved" : x \in IF ~e.zero /\ ~e.sign /\ Ratioish(e.a, e.b) THEN {1} ELSE {}}
  \cup {"C04:conv:value" : x \in IF JudgedC(e) /\ Abs(e.obs - NetExpected(e.a, e.b, size)) > TolC(e.a, e.b) THEN {1} ELSE {}}
  \cup {"C05:conv:own-unit-changes-magnitude" : x \in IF e.ho /\ e.a.k = e.b.k /\ Ratioish(e.a, e.b) /\ Abs(e.obs) > 1 THEN {1} ELSE {}}
  \cup {"C08:conv:repeat-differs" : x \in IF e.ho /\ Ratioish(e.a, e.b) /\ p \in DOMAIN seen /\ Abs(seen[p] - e.obs) > 2 THEN {1} ELSE {}}
  \cup {"C05:conv:reverse-is-not-the-inverse" : x \in IF e.ho /\ Ratioish(e.a, e.b) /\ r \in DOMAIN seen /\ Abs(seen[r] + e.obs) > TolC(e.a, e.b) THEN {1} ELSE {}}
  \cup {"C08:conv:failed-then-succeeded-without-a-declaration" : x \in IF p \in fails THEN {1} ELSE {}}
ConvOK(e) == LET p == <<e.a.k, e.b.k>> IN
  /\ oks' = oks \cup {p} /\ UNCHANGED <<size, taint, via, pend, shipped, fails, epoch>>
  /\ seen' = IF e.ho /\ Ratioish(e.a, e.b) /\ p \notin DOMAIN seen THEN (p :> e.obs) @@ seen ELSE seen
FailBad(e) ==
  LET p == <<e.a.k, e.b.k>> IN
     {"C07:conv:escaped:" \o e.out : x \in IF e.out \in Forbidden THEN {1} ELSE {}}
  \cup {"C08:conv:succeeded-then-failed-without-a-declaration" : x \in IF p \in oks /\ e.out = "CNF" THEN {1} ELSE {}}
  \cup {"C05:conv:own-unit-refused" : x \in IF e.a.k = e.b.k /\ e.out = "CNF" THEN {1} ELSE {}}
ConvFail(e) == LET p == <<e.a.k, e.b.k>> IN
  /\ fails' = IF e.out = "CNF" THEN fails \cup {p} ELSE fails
  /\ UNCHANGED <<size, taint, via, pend, shipped, seen, oks, epoch>>

\* ---- arithmetic: e = [op, l: Q, rt ("q" | "unit" | "num" | "none" | "foreign"), r: Q, n, out, hr (has result), res: Q]
N == 12
At(d, i) == IF i <= Len(d) THEN d[i] ELSE 0
DAdd(a, b) == [i \in 1..N |-> At(a, i) + At(b, i)]
DSub(a, b) == [i \in 1..N |-> At(a, i) - At(b, i)]
DScale(a, n) == [i \in 1..N |-> n * At(a, i)]
DPad(a) == [i \in 1..N |-> At(a, i)]
DZero == [i \in 1..N |-> 0]
RDim(e) == IF e.rt \in {"q", "unit"} THEN e.r.u.d ELSE <<>>
LawDim(e) ==        \* the dimension the operator's law prescribes for the result
  CASE e.op \in {"add", "sub", "neg", "pos", "abs"} -> DPad(e.l.u.d)
    [] e.op = "mul" -> DAdd(e.l.u.d, RDim(e))
    [] e.op = "div" -> DSub(e.l.u.d, RDim(e))
    [] e.op = "rdiv" -> DSub(<<>>, e.l.u.d)
    [] e.op = "pow" -> DScale(e.l.u.d, e.n)
    [] OTHER -> DZero
Dec(q) == q.mk = "Decimal"
PV(q, sz) == q.lm + q.u.pl + SumT(q.u.t, 1, sz)         \* lattice ln of |SI value|
JudgedQ(q) == q.hm /\ ~q.u.sc /\ Sized(q.u.t, size, taint)
NZ(q) == q.hm /\ q.sg # 0                              \* PV is defined
TolQ(q) == 10 * DegT(q.u.t, 1) + Len(q.u.t) + 3
ArithBad(e) ==
  IF e.out = "ok" /\ e.hr THEN
     {"C03:" \o e.op \o ":incommensurable-not-rejected" : x \in IF e.op \in {"add", "sub"} /\ e.rt = "q" /\ DPad(e.l.u.d) # DPad(e.r.u.d) THEN {1} ELSE {}}
  \cup {"C03:" \o e.op \o ":dimension" : x \in IF e.op \in {"add", "sub", "neg", "pos", "abs", "mul", "div", "pow"} /\ e.rt # "foreign" /\ DPad(e.res.u.d) # LawDim(e) THEN {1} ELSE {}}
  \cup {"C03:ndivq:dimension" : x \in IF e.op = "rdiv" /\ e.rt = "num" /\ DPad(e.res.u.d) # LawDim(e) THEN {1} ELSE {}}
  \cup {"C03:root:dimension" : x \in IF e.op = "root" /\ e.n # 0 /\ e.rt # "foreign" /\ DScale(e.res.u.d, e.n) # DPad(e.l.u.d) THEN {1} ELSE {}}
  \cup {"C03:" \o e.op \o ":left-unit-not-kept" : x \in IF e.op \in {"add", "sub", "neg", "pos", "abs"} /\ e.res.u.k # e.l.u.k THEN {1} ELSE {}}
  \cup {"C03:" \o e.op \o ":decimal-lost" : x \in IF (Dec(e.l) \/ (e.rt \in {"q", "num"} /\ Dec(e.r))) /\ e.op # "rdiv" /\ ~Dec(e.res) THEN {1} ELSE {}}
  \cup {"C06:" \o e.op \o ":physical-value" : x \in
          IF e.op \in {"mul", "div"} /\ e.rt = "q" /\ JudgedQ(e.l) /\ JudgedQ(e.r) /\ JudgedQ(e.res)
             /\ NZ(e.l) /\ NZ(e.r) /\ NZ(e.res)
             /\ Abs(PV(e.res, size) - (IF e.op = "mul" THEN PV(e.l, size) + PV(e.r, size) ELSE PV(e.l, size) - PV(e.r, size)))
                  > TolQ(e.l) + TolQ(e.r) + TolQ(e.res)
          THEN {1} ELSE {}}
  \cup {"C06:" \o e.op \o ":sign" : x \in
          IF e.op \in {"mul", "div"} /\ e.rt = "q" /\ e.l.hm /\ e.r.hm /\ e.res.hm
             /\ (   (e.res.sg # 0 /\ e.res.sg # e.l.sg * e.r.sg)
                 \/ (e.l.sg = 0 /\ e.r.sg # 0 /\ e.res.sg # 0)
                 \/ (e.op = "mul" /\ e.r.sg = 0 /\ e.res.sg # 0))
          THEN {1} ELSE {}}
  \* a sum cannot be judged on the log lattice, but its range can: |l + r| lies between max(|l|, |r|) and twice that when
  \* the signs agree, and never above twice the larger one (a sum taken without converting, or converted the wrong way
  \* round, leaves that range as soon as the two units differ by more than a factor of two)
  \cup {"C06:" \o e.op \o ":sum-outside-the-range-of-its-operands" : x \in
          IF e.op \in {"add", "sub"} /\ e.rt = "q" /\ DPad(e.l.u.d) = DPad(e.r.u.d)
             /\ JudgedQ(e.l) /\ JudgedQ(e.r) /\ JudgedQ(e.res) /\ NZ(e.l) /\ NZ(e.r) /\ NZ(e.res)
             /\ LET rs == IF e.op = "add" THEN e.r.sg ELSE 0 - e.r.sg
                    pl == PV(e.l, size)   pr == PV(e.r, size)   ps == PV(e.res, size)
                    mx == IF pl > pr THEN pl ELSE pr
                    tol == TolQ(e.l) + TolQ(e.r) + TolQ(e.res) + 4
                IN  \/ ps > mx + 693148 + tol
                    \/ (e.l.sg = rs /\ (ps < mx - tol \/ e.res.sg # e.l.sg))
          THEN {1} ELSE {}}
  \cup {"C06:pow:physical-value" : x \in
          IF e.op = "pow" /\ e.rt # "foreign" /\ JudgedQ(e.l) /\ JudgedQ(e.res) /\ NZ(e.l) /\ NZ(e.res) /\ Abs(e.n) <= 6
             /\ Abs(PV(e.res, size) - e.n * PV(e.l, size)) > (Abs(e.n) + 1) * TolQ(e.l) + TolQ(e.res)
          THEN {1} ELSE {}}
  ELSE IF e.out = "ok" THEN     \* returned something that is not a quantity
     {"C03:" \o e.op \o ":yields-a-non-quantity" : x \in IF e.op \in {"add", "sub"} /\ e.rt = "q" THEN {1} ELSE {}}
  ELSE {"C07:" \o e.op \o ":escaped:" \o e.out : x \in IF e.op \in {"add", "sub"} /\ e.out \in Forbidden THEN {1} ELSE {}}

\* ---- comparisons: e = [op ("eq" | "lt"), l: Q, r: Q, out ("T" | "F" | "NI" | exception class),
\*                      rev (the same for r op l, "none" when not asked), hq ("T" | "F" | "NA": hash(l) = hash(r))]
\* -1: l < r physically, 1: l > r, 0: tie or not judged, 2: both exactly zero
Order(l, r) ==
  IF ~(l.hm /\ r.hm) \/ l.u.sc \/ r.u.sc \/ ~Sized(l.u.t, size, taint) \/ ~Sized(r.u.t, size, taint) THEN 0
  ELSE IF l.sg = 0 /\ r.sg = 0 THEN 2
  ELSE IF l.sg < r.sg THEN -1 ELSE IF l.sg > r.sg THEN 1
  ELSE LET dlt == PV(l, size) - PV(r, size)  tol == TolQ(l) + TolQ(r) + 6 IN
       IF Abs(dlt) <= tol THEN 0 ELSE IF (dlt > 0) = (l.sg > 0) THEN 1 ELSE -1
CmpBad(e) ==
  LET same == DPad(e.l.u.d) = DPad(e.r.u.d)  o == IF same THEN Order(e.l, e.r) ELSE 0 IN
     {"C03:cmp:" \o e.op \o ":incommensurable-compared" : x \in IF ~same /\ ((e.op = "eq" /\ e.out = "T") \/ (e.op = "lt" /\ e.out \in {"T", "F"})) THEN {1} ELSE {}}
  \cup {"C07:cmp:escaped:" \o e.out : x \in IF e.out \in Forbidden THEN {1} ELSE {}}
  \cup {"C12:cmp:" \o e.op \o ":disagrees-with-physical-order" : x \in
          IF    (o \in {-1, 1} /\ e.op = "eq" /\ e.out = "T")
             \/ (o = -1 /\ e.op = "lt" /\ e.out = "F") \/ (o = 1 /\ e.op = "lt" /\ e.out = "T")
             \/ (o = 2 /\ ((e.op = "eq" /\ e.out = "F") \/ (e.op = "lt" /\ e.out = "T")))
          THEN {1} ELSE {}}
  \* the same pair asked the other way round (e.rev: r == l, resp. r < l), and the hashes of the two (e.hq); like the
  \* clause above this is judged away from ties only: 40 rod < 0.125 mile and 0.125 mile < 40 rod are both True in floats
  \cup {"C12:cmp:" \o e.op \o ":other-way-round-disagrees-with-physical-order" : x \in
          IF    (o \in {-1, 1} /\ e.op = "eq" /\ e.rev = "T")
             \/ (o = -1 /\ e.op = "lt" /\ e.rev = "T") \/ (o = 1 /\ e.op = "lt" /\ e.rev = "F")
             \/ (o = 2 /\ ((e.op = "eq" /\ e.rev = "F") \/ (e.op = "lt" /\ e.rev = "T")))
          THEN {1} ELSE {}}
  \cup {"C12:cmp:eq:equal-in-one-unit-but-hashes-differ" : x \in
          IF e.op = "eq" /\ e.out = "T" /\ e.hq = "F" /\ e.l.u.k = e.r.u.k THEN {1} ELSE {}}
  \cup {"C03:cmp:" \o e.op \o ":incommensurable-compared-the-other-way-round" : x \in
          IF ~same /\ ((e.op = "eq" /\ e.rev = "T") \/ (e.op = "lt" /\ e.rev \in {"T", "F"})) THEN {1} ELSE {}}
  \cup {"C07:cmp:escaped:" \o e.rev : x \in IF e.rev \in Forbidden THEN {1} ELSE {}}
=============================================================================
