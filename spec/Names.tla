---------------------------- MODULE Names ----------------------------
(***************************************************************************)
(* C19: names and symbols of units, prefixes and dimensions.               *)
(*                                                                         *)
(* Objects are opaque keys (strings): a unit key stands for an interned    *)
(* unit (base or compound), a prefix key for an interned prefix.  The      *)
(* registries are                                                          *)
(*   known[c]            the interned objects of class c ("unit"/"prefix") *)
(*   names[c][k], syms[c][k]   what object k reports (sequences)           *)
(*   byName[c], bySym[c] the lookup tables                                 *)
(* A DECLARING call (define / derive / alias / named construction) is      *)
(* validate-then-commit: it fails - changing nothing - when the name or    *)
(* symbol is bound to another object or the symbol is malformed, otherwise *)
(* it binds both ways, whether or not the object already existed           *)
(* anonymously.  An ANONYMOUS construction only interns.                   *)
(***************************************************************************)
EXTENDS Integers, Sequences, FiniteSets, TLC
CONSTANTS Classes,     \* {"unit", "prefix"}
          Keys,        \* Classes -> set of object keys
          NameTok,     \* names that may be declared ("" = none given)
          SymTok,      \* symbols that may be declared ("" = none given)
          BadSyms,     \* malformed symbols (contain a space, or are not strings): the declaration must fail
          MaybeSyms    \* questionable symbols (other whitespace): the library may accept or reject them, atomically either way

VARIABLES known, names, syms, byName, bySym, ev
regs == <<known, names, syms, byName, bySym>>
vars == <<known, names, syms, byName, bySym, ev>>

Ev(op, c, k, n, s, out) == [op |-> op, c |-> c, k |-> k, n |-> n, s |-> s, out |-> out]
Init == /\ known = [c \in Classes |-> {}]
        /\ names = [c \in Classes |-> << >>] /\ syms = [c \in Classes |-> << >>]
        /\ byName = [c \in Classes |-> << >>] /\ bySym = [c \in Classes |-> << >>]
        /\ ev = Ev("init", "", "", "", "", "ok")

NamesOf(c, k) == IF k \in DOMAIN names[c] THEN names[c][k] ELSE <<>>
SymsOf(c, k)  == IF k \in DOMAIN syms[c] THEN syms[c][k] ELSE <<>>
Taken(tab, x, k) == x \in DOMAIN tab /\ tab[x] # k
Has(seq, x) == \E i \in 1..Len(seq) : seq[i] = x

\* interning without a name (arithmetic, rendering, parsing, ...)
Anon(c, k) ==
  /\ known' = [known EXCEPT ![c] = @ \cup {k}]
  /\ ev' = Ev("anon", c, k, "", "", "ok")
  /\ UNCHANGED <<names, syms, byName, bySym>>

Valid(c, k, n, s) == /\ ~(n # "" /\ Taken(byName[c], n, k))
                     /\ ~(s # "" /\ Taken(bySym[c], s, k))
                     /\ s \notin BadSyms
\* a declaring call for object k (op says which API spelling was used); `fresh` = the call creates k (define)
Commit(op, c, k, n, s) ==
          /\ known' = [known EXCEPT ![c] = @ \cup {k}]
          /\ names' = [names EXCEPT ![c] = IF n = "" \/ Has(NamesOf(c, k), n) THEN @ ELSE (k :> Append(NamesOf(c, k), n)) @@ @]
          /\ syms' = [syms EXCEPT ![c] = IF s = "" \/ Has(SymsOf(c, k), s) THEN @ ELSE (k :> Append(SymsOf(c, k), s)) @@ @]
          /\ byName' = [byName EXCEPT ![c] = IF n = "" THEN @ ELSE (n :> k) @@ @]
          /\ bySym' = [bySym EXCEPT ![c] = IF s = "" THEN @ ELSE (s :> k) @@ @]
          /\ ev' = Ev(op, c, k, n, s, "ok")
Refuse(op, c, k, n, s) == ev' = Ev(op, c, k, n, s, "error") /\ UNCHANGED regs
Declare(op, c, k, n, s, fresh) ==
  /\ (fresh => k \notin known[c]) /\ (~fresh /\ op \in {"derive", "alias"} => k \in known[c])
  /\ IF ~Valid(c, k, n, s) THEN Refuse(op, c, k, n, s)
     ELSE IF s \in MaybeSyms THEN (Commit(op, c, k, n, s) \/ Refuse(op, c, k, n, s))
     ELSE Commit(op, c, k, n, s)

\* a lookup by symbol (Unit.resolve_symbol / Prefix.resolve_symbol): exact symbol first, then - for units - the name;
\* its answer is a function of the registries NOW, whatever was looked up before
\* (dimensions have a name registry only: Dimension.named)
Resolve(c, x) == IF c = "dimension" THEN (IF x \in DOMAIN byName[c] THEN byName[c][x] ELSE "unbound")
                 ELSE IF x \in DOMAIN bySym[c] THEN bySym[c][x]
                 ELSE IF c = "unit" /\ x \in DOMAIN byName[c] THEN byName[c][x] ELSE "unbound"
Lookup(c, x) ==
  /\ ev' = Ev("lookup", c, Resolve(c, x), "", x, "ok")
  /\ UNCHANGED regs

(* ---------------- properties ---------------- *)
\* every binding is faithful in both directions
C19_Bound == \A c \in Classes :
   /\ \A n \in DOMAIN byName[c] : Has(NamesOf(c, byName[c][n]), n)
   /\ \A s \in DOMAIN bySym[c] : Has(SymsOf(c, bySym[c][s]), s)
   /\ \A k \in DOMAIN names[c] : \A i \in 1..Len(names[c][k]) : byName[c][names[c][k][i]] = k
   /\ \A k \in DOMAIN syms[c] : \A i \in 1..Len(syms[c][k]) : bySym[c][syms[c][k][i]] = k
\* a successful declaration is visible afterwards, whatever happened before
C19_Declared == (ev.out = "ok" /\ ev.op \notin {"anon", "init", "lookup", "snap", "restore"}) =>
   /\ (ev.n # "" => ev.n \in DOMAIN byName[ev.c] /\ byName[ev.c][ev.n] = ev.k /\ Has(NamesOf(ev.c, ev.k), ev.n))
   /\ (ev.s # "" => ev.s \in DOMAIN bySym[ev.c] /\ bySym[ev.c][ev.s] = ev.k /\ Has(SymsOf(ev.c, ev.k), ev.s))
\* a name or symbol is never bound to two different objects (no key of a registry ever changes its value)
C19_Unique == [][\A c \in Classes : /\ \A n \in DOMAIN byName[c] : n \in DOMAIN byName'[c] /\ byName'[c][n] = byName[c][n]
                                    /\ \A s \in DOMAIN bySym[c] : s \in DOMAIN bySym'[c] /\ bySym'[c][s] = bySym[c][s]]_vars
\* a call that raises leaves every registry exactly as it was
C19_Atomic == [][ev'.out = "error" => UNCHANGED regs]_vars
=============================================================================
