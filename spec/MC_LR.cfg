CONSTANTS
  ActA <- DActA
  RulesA <- DRulesA
  StartA <- DStartA
  EndA <- DEndA
  ActB <- DActB
  RulesB <- DRulesB
  StartB <- DStartB
  EndB <- DEndB
  Terminals <- DTerminals
  MaxLen <- MCMaxLen
  Traces <- DTraces
INIT MCInit
NEXT Next
INVARIANT C16_Rows
INVARIANT C16_Starts
INVARIANT C16_RuleSets
INVARIANT C16_Lexer
INVARIANT C16_SameLanguage
INVARIANT ExportRun
INVARIANT ReportTrace
PROPERTY C16_SameReductions
CHECK_DEADLOCK FALSE
