---------------------------- MODULE MC_ConvNodes ----------------------------
(* C08 (and C07/C04/C05 on node units): ALL interleavings of declarations and queries over a *)
(* few single units of one dimension.  Every state is a history; each is exported once.      *)
EXTENDS Conversions, Json, IOUtils

EnvInt(name, default) == IF name \in DOMAIN IOEnv THEN atoi(IOEnv[name]) ELSE default
NNodes  == EnvInt("VERIF_NODES", 3)
MaxDecl == EnvInt("VERIF_MAXDECL", 3)
MaxQ    == EnvInt("VERIF_MAXQ", 2)

\* VERIF_CHAIN = 1: four units that can only be connected as a chain n1 - n2 - n3 - n4, and questions only between units
\* at least two links apart: a conversion that fails is later made possible by a declaration between two OTHER units
Chain == EnvInt("VERIF_CHAIN", 0)
MCFund == {"L"}
MCBase == IF NNodes = 3 /\ Chain = 0 THEN {"n1", "n2", "n3"} ELSE {"n1", "n2", "n3", "n4"}
MCbdim == [b \in MCBase |-> [L |-> 1]]
B(x) == [c \in MCBase |-> IF c = x THEN 1 ELSE 0]
C(l, pv, p, r) == [l |-> l, lp |-> 0, pv |-> pv, p |-> p, r |-> B(r)]
\* consistent by construction: n2 = 2 n1, n3 = 3 n2 = 6 n1, n4 = 5 n3, and 1 milli-n4 = 0.03 n1 (prefixed LEFT side)
\* With VERIF_REDECL = 1 the pair (n3, n2) has a SECOND candidate, n3 = 5 n2: declared after n3 = 3 n2 (or before it) it
\* replaces it - a corrected definition.  Only histories whose equivalences in force stay free of contradiction are
\* explored (with n3 = 6 n1 and n2 = 2 n1 in force the correction would contradict them).
Redecl == EnvInt("VERIF_REDECL", 0)
MCCands == IF Chain = 1 THEN << C("n2", <<1, 0, 0>>, 0, "n1"), C("n3", <<0, 1, 0>>, 0, "n2"), C("n4", <<0, 0, 1>>, 0, "n3") >>
           ELSE IF NNodes = 3
           THEN IF Redecl = 1
                THEN << C("n2", <<1, 0, 0>>, 0, "n1"), C("n3", <<0, 1, 0>>, 0, "n2"), C("n3", <<1, 1, 0>>, 0, "n1"), C("n3", <<0, 0, 1>>, 0, "n2") >>
                ELSE << C("n2", <<1, 0, 0>>, 0, "n1"), C("n3", <<0, 1, 0>>, 0, "n2"), C("n3", <<1, 1, 0>>, 0, "n1") >>
           ELSE << C("n2", <<1, 0, 0>>, 0, "n1"), C("n3", <<0, 1, 0>>, 0, "n2"), C("n3", <<1, 1, 0>>, 0, "n1"),
                   C("n4", <<0, 0, 1>>, 0, "n3"), [l |-> "n4", lp |-> -3, pv |-> <<-2, 1, -2>>, p |-> 0, r |-> B("n1")] >>
MCRoots == {"n1"}

\* unit DEFINITIONS are part of the history too (VERIF_LATEDEFS = 1): the last node only comes into existence when a
\* "define" event says so; before that nothing can mention it
LateDefs == EnvInt("VERIF_LATEDEFS", 0)
Late == IF LateDefs = 1 THEN {IF NNodes = 3 THEN "n3" ELSE "n4"} ELSE {}
Defined == MCBase \ {b \in Late : ~\E k \in 1..Len(hist) : hist[k].op = "define" /\ hist[k].u = Single(b)}
DefineLate(b) == /\ b \in Late /\ b \notin Defined
                 /\ ev' = Ev("define", 0, Single(b), Single(b), "ok", PV0, 0)
                 /\ hist' = Append(hist, ev') /\ UNCHANGED decl
Usable(i) == {MCCands[i].l} \cup Support(MCCands[i].r) \subseteq Defined
Pos(n) == CHOOSE i \in 1..4 : n = <<"n1", "n2", "n3", "n4">>[i]
Far(a, b) == Pos(a) - Pos(b) \notin {-1, 0, 1}
NQ == Cardinality({k \in 1..Len(hist) : hist[k].op \in {"query", "compare"}})
MCNext ==
  \/ \E i \in 1..Len(MCCands) : Len(decl) < MaxDecl /\ Usable(i) /\ ConsistentSet(EffOf(Append(decl, i))) /\ Declare(i)
  \/ \E a, b \in Defined : a # b /\ NQ < MaxQ /\ (Chain = 1 => Far(a, b)) /\ QueryNode(a, b, 1)
  \/ \E a, b \in Defined : a # b /\ NQ < MaxQ /\ (Chain = 1 => Far(a, b)) /\ CompareNode(a, b, 1)
  \/ \E b \in Late : DefineLate(b)
\* theorem config: declaration subsets only (no history), all orders
MCNextDecl == \E i \in 1..Len(MCCands) : Declare(i)
DeclView == Declared
\* (with re-declarations only the histories that contain the second candidate are new)
ExportHist == (Len(hist) > 0 /\ (Redecl = 1 => 4 \in Declared)) => PrintT("@@H " \o ToJson(hist))
=============================================================================
