---- MODULE NamesTraceData ----
(* Placeholder: harness/names.py overwrites this with the declaration traces recorded at import time. *)
NTraces == << << [op |-> "named", c |-> "prefix", k |-> "P(10,3)", n |-> "kilo", s |-> "k", out |-> "ok", bn |-> "P(10,3)", bs |-> "P(10,3)", rn |-> TRUE, rs |-> TRUE] >> >>
====
