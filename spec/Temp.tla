---------------------------- MODULE Temp ----------------------------
(***************************************************************************)
(* Temperature scales (C10): kelvin, Celsius, Rankine, Fahrenheit with any *)
(* decimal prefix convert by their exact affine definitions                *)
(*     C = K - 273.15     F = R - 459.67     R = 9/5 K.                    *)
(* A reading is [m |-> rational, k |-> kind, s |-> scale, p |-> prefix     *)
(* exponent].  Kelvin(q) = (m * 10^p + zero(s)) * degree(s) with the       *)
(* literal definitions as rationals; Convert is its inverse on the target. *)
(* Prefixes never enter TLC's arithmetic: a case carries the UNPREFIXED    *)
(* reading g on the source scale; the magnitude actually written is        *)
(* g * 10^-p and the prescribed result is r * 10^-pt (applied by alpha     *)
(* with exact Fractions), so intermediates stay far below 2^30.            *)
(***************************************************************************)
EXTENDS Num, Sequences, FiniteSets, TLC
CONSTANTS Scales, SrcP, DstP, Mags, Kinds
VARIABLES ev
vars == <<ev>>

Zero(s)   == CASE s = "K" -> <<0, 1>> [] s = "C" -> Norm(27315, 100) [] s = "R" -> <<0, 1>> [] s = "F" -> Norm(45967, 100)
Degree(s) == CASE s \in {"K", "C"} -> <<1, 1>> [] s \in {"R", "F"} -> <<5, 9>>
Ten(p) == IF p >= 0 THEN <<IPow(10, p), 1>> ELSE <<1, IPow(10, -p)>>
Kelvin(m, s, p) == RMul(RAdd(m, Zero(s)), Degree(s))      \* m is the unprefixed reading; p is carried for alpha
\* the reading on scale t (unprefixed); the harness divides by 10^pt
OnScale(kel, t) == RSub(RDiv(kel, Degree(t)), Zero(t))
Convert(m, s, p, t) == OnScale(Kelvin(m, s, p), t)

Ev(op, m, k, s, p, t, pt, r, m2, n) == [op |-> op, m |-> m, k |-> k, s |-> s, p |-> p, t |-> t, pt |-> pt, r |-> r, m2 |-> m2, n |-> n]
Init == ev = Ev("init", <<0, 1>>, "int", "K", 0, "K", 0, <<0, 1>>, <<0, 1>>, 0)

InGrid(m, p) == TRUE
\* k = "int" is only meaningful when the written magnitude g * 10^-p is integral: alpha skips the others
ConvertCase(m, k, s, p, t, pt) ==
  /\ InGrid(m, p)
  /\ ev' = Ev("convert", m, k, s, p, t, pt, Convert(m, s, p, t), <<0, 1>>, 0)
\* ordering across scales: a versus b, decided by kelvin values (n = -1, 0, +1)
CompareCase(m, s, p, m2, t, pt) ==
  /\ InGrid(m, p) /\ InGrid(m2, pt)
  /\ LET x == Kelvin(m, s, p) y == Kelvin(m2, t, pt)
     IN ev' = Ev("compare", m, "float", s, p, t, pt, <<0, 1>>, m2, IF RLt(x, y) THEN -1 ELSE IF x = y THEN 0 ELSE 1)

(* ---- theorems of the statement on the model ---- *)
RoundTrip == \A m \in Mags, s \in Scales, t \in Scales : Convert(Convert(m, s, 0, t), t, 0, s) = m
AbsoluteZero == \A s \in Scales, t \in Scales : Convert(RNeg(Zero(s)), s, 0, t) = RNeg(Zero(t))
Differences == \A m \in Mags, s \in Scales, t \in Scales :
   RSub(Convert(RAdd(m, <<1, 1>>), s, 0, t), Convert(m, s, 0, t)) = RDiv(Degree(s), Degree(t))
Monotone == \A m \in Mags, s \in Scales, t \in Scales : RLt(Convert(m, s, 0, t), Convert(RAdd(m, <<1, 2>>), s, 0, t))
=============================================================================
