CONSTANTS
  Node <- MCNode
  Edges <- MCEdges
  InvalidateOnDeclare = TRUE
INIT Init
NEXT Next
INVARIANT C08_Function
CHECK_DEADLOCK FALSE
INVARIANT NoStale
