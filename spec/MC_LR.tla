---------------------------- MODULE MC_LR ----------------------------
(* C16: product of the shipped table (A) and the freshly generated table (B); C17 token level. *)
EXTENDS LR, LRData, LRTraceData, Json, IOUtils
EnvInt(name, default) == IF name \in DOMAIN IOEnv THEN atoi(IOEnv[name]) ELSE default
MCMaxLen == EnvInt("VERIF_LRLEN", 6)
MCMode == IF "VERIF_LRMODE" \in DOMAIN IOEnv THEN IOEnv["VERIF_LRMODE"] ELSE "iso"
MCInit == mode = MCMode /\ Init
\* the lexer as data: terminal name -> signature (pattern, flags, priority), ignore list, lexer type, tree-shaping options
C16_Lexer == mode \in {"iso", "run", "trace"} => (DTermsA = DTermsB /\ DOptsA = DOptsB)
ReportTrace == TraceAccepted => PrintT("@@ACC " \o ToString(sa))
\* every token string TLC explores, with what the SHIPPED table says about it (for differential parsing and C17)
ExportRun == (mode = "run" /\ Len(toks) > 0) =>
   PrintT("@@W " \o ToJson([start |-> start, toks |-> toks, alive |-> stA # <<>>,
                            accepted |-> IF stA = <<>> THEN FALSE ELSE AcceptsFrom(ActA, RulesA, EndA[start], stA),
                            stack |-> stA]))
=============================================================================
