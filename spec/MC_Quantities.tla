---------------------------- MODULE MC_Quantities ----------------------------
(* Exhaustive small-scope enumeration of operator x operand-kind x unit cases over the dyadic *)
(* synthetic system S2 (all ratios are powers of two, so float arithmetic is exact and ties   *)
(* are decidable).  Every case is one step from Init; TLC exports what the spec prescribes.   *)
EXTENDS Quantities, Json, IOUtils

EnvInt(name, default) == IF name \in DOMAIN IOEnv THEN atoi(IOEnv[name]) ELSE default
Size == EnvInt("VERIF_QPOOL", 1)        \* 1 = quick pool, 2 = thorough pool
Group == IF "VERIF_QOPS" \in DOMAIN IOEnv THEN IOEnv["VERIF_QOPS"] ELSE "all"

MCFund == {"L", "T", "M"}
BaseSeq == <<"ma", "mb", "mc", "md", "sa", "sb", "ga", "gb", "fa">>
MCBase == {BaseSeq[i] : i \in 1..Len(BaseSeq)}
D(l, t, m) == [L |-> l, T |-> t, M |-> m]
MCbdim == [b \in MCBase |->
   CASE b \in {"ma", "mb", "mc", "md"} -> D(1, 0, 0) [] b \in {"sa", "sb"} -> D(0, 1, 0)
     [] b \in {"ga", "gb"} -> D(0, 0, 1) [] b = "fa" -> D(1, -2, 1)]
MCbsize == [b \in MCBase |->
   CASE b = "ma" -> <<0, 0, 0>> [] b = "mb" -> <<-2, 0, 0>> [] b = "mc" -> <<3, 0, 0>> [] b = "md" -> <<4, 0, 0>>
     [] b = "sa" -> <<0, 0, 0>> [] b = "sb" -> <<6, 0, 0>> [] b = "ga" -> <<0, 0, 0>>
     [] b = "gb" -> <<10, 0, 0>> [] b = "fa" -> <<11, 0, 0>>]
\* the declarations that realise these sizes in the library: [l, value as 2^e, rhs bag]
Bag(S) == [b \in MCBase |-> IF \E x \in S : x[1] = b THEN (CHOOSE x \in S : x[1] = b)[2] ELSE 0]
Decls == << [l |-> "mb", e |-> -2, r |-> Bag({<<"ma", 1>>})], [l |-> "mc", e |-> 3, r |-> Bag({<<"ma", 1>>})],
            [l |-> "mc", e |-> 5, r |-> Bag({<<"mb", 1>>})], [l |-> "sb", e |-> 6, r |-> Bag({<<"sa", 1>>})],
            [l |-> "md", e |-> 1, r |-> Bag({<<"mc", 1>>})],      \* md = 2 mc ONLY: md is two hops away from ma and mb
            [l |-> "gb", e |-> 10, r |-> Bag({<<"ga", 1>>})],
            [l |-> "fa", e |-> 1, r |-> Bag({<<"gb", 1>>, <<"ma", 1>>, <<"sa", -2>>})] >>
UU(p10, p2, S) == [p10 |-> p10, p2 |-> p2, f |-> Bag(S)]
AllUnits == <<
  UU(0, 0, {<<"ma", 1>>}), UU(0, 0, {<<"mb", 1>>}), UU(3, 0, {<<"ma", 1>>}), UU(0, 10, {<<"mb", 1>>}),
  UU(0, 0, {<<"sa", 1>>}), UU(0, 0, {<<"ma", 1>>, <<"sa", -1>>}), UU(0, 0, {<<"mb", 1>>, <<"sb", -1>>}),
  UU(0, 0, {<<"gb", 1>>}), UU(0, 0, {<<"fa", 1>>}), UU(0, 0, {<<"gb", 1>>, <<"ma", 1>>, <<"sa", -2>>}),
  UU(0, 0, {}), UU(0, 0, {<<"ma", 2>>}), UU(3, 0, {<<"sa", -1>>}), UU(0, 0, {<<"md", 2>>}), UU(3, 0, {}),       \* (kilo * One: a dimensionless unit that still carries a prefix)
  UU(0, 3, {<<"ga", 1>>}),                       \* (2^3, the byte-like prefix: the same exponent as kilo in another base)
  \* thorough only from here
  UU(0, 0, {<<"mc", 1>>}), UU(0, 0, {<<"sb", 1>>}), UU(3, 0, {<<"mc", 1>>, <<"sb", -1>>}), UU(0, 0, {<<"ga", 1>>}),
  UU(0, 0, {<<"mb", 2>>}), UU(0, 0, {<<"ma", 1>>, <<"mb", -1>>}), UU(-3, 0, {<<"ga", 1>>}),
  UU(3, 0, {<<"ma", 2>>}), UU(0, 10, {<<"ma", 1>>, <<"sa", -1>>}) >>
NU == IF Size = 1 THEN 16 ELSE Len(AllUnits)
MCUnits == [t \in 1..NU |-> AllUnits[t]]
MK(n, d, k) == [m |-> <<n, d>>, k |-> k]
AllMags == << MK(-3, 1, "int"), MK(2, 1, "int"), MK(1, 2, "float"), MK(2, 1, "Decimal"), MK(0, 1, "int"),
              MK(2, 1, "float"), MK(1, 2, "Decimal"), MK(4, 1, "int"), MK(-3, 1, "float") >>
NM == IF Size = 1 THEN 5 ELSE Len(AllMags)
MCPool == [x \in 1..(NU * NM) |-> LET t == ((x - 1) \div NM) + 1 mm == ((x - 1) % NM) + 1
                                 IN [m |-> AllMags[mm].m, k |-> AllMags[mm].k, u |-> AllUnits[t]]]
MCScalars == << MK(2, 1, "int"), MK(1, 2, "float"), MK(2, 1, "Decimal"), MK(-4, 1, "int") >>
MCUncs == << <<0, 1>>, <<1, 2>>, <<3, 1>>, <<1, 8>> >>
MCPowers == {-2, -1, 0, 2, 3}
MCRoots == {2, 3}

P == 1..Len(MCPool)
MCNext == TLCGet("level") = 1 /\
  \/ Group \in {"all", "addsub"} /\ \E i \in P, j \in P : AddSub("add", i, j) \/ AddSub("sub", i, j)
  \/ Group \in {"all", "muldiv"} /\ \E i \in P, j \in P : MulDiv("mul", i, j) \/ MulDiv("div", i, j)
  \/ Group \in {"all", "cmp"} /\ \E i \in P, j \in P : Compare(i, j)
  \/ Group \in {"all", "unary"} /\
       \/ \E i \in P, n \in MCPowers : Pow(i, n)
       \/ \E i \in P, n \in MCRoots : Root(i, n)
       \/ \E i \in P, op \in {"neg", "pos", "abs"} : Unary(op, i)
       \/ \E i \in P, s \in 1..Len(MCScalars), op \in {"nmulq", "qmuln", "qdivn", "ndivq"} : Scalar(op, i, s)
       \/ \E i \in P, t \in 1..NU, op \in {"qmulu", "umulq", "qdivu"} : WithUnit(op, i, t)
       \/ \E i \in P, t \in 1..NU : InUnit(i, t)
  \/ Group \in {"all", "meas"} /\ \E i \in P, j \in P, s \in 1..Len(MCUncs), t \in 1..Len(MCUncs) : MeasPair(i, j, s, t)
  \/ Group \in {"all", "prefix"} /\ \E t \in 1..NU, b \in BOOLEAN, e \in {-3, 0, 3, 10}, side \in {1, 2} : PrefixOnUnit(t, b, e, side)
ExportCase == ev.op # "init" => PrintT("@@E " \o ToJson(ev))
ExportSystem == ev.op = "init" => PrintT("@@SYS " \o ToJson([base |-> BaseSeq, bdim |-> MCbdim, bsize |-> MCbsize,
                      decls |-> Decls, pool |-> MCPool, units |-> MCUnits, scalars |-> MCScalars, uncs |-> MCUncs]))
\* the oracle's own sanity: declared equivalences agree with the size table; laws of the statement hold on the model
S2Consistent == ev.op = "init" => \A x \in 1..Len(Decls) : LET c == Decls[x] IN
     MCbsize[c.l] = PAdd(<<c.e, 0, 0>>, SumSize(Support(c.r), c.r))
Laws == ev.op = "init" => (C12_Trichotomy /\ C06_AddCommutes /\ C11_PrefixIsFactor)
=============================================================================
