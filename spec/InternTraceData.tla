---- MODULE InternTraceData ----
(* Placeholder: harness/intern.py overwrites this module in its scratch directory with the *)
(* histories recorded from the real library.  Two hand-written histories keep it parseable: *)
(* the first is linearizable, the second (two objects for one key) is not.                  *)
TraceData == <<
  <<[ev |-> "call", thr |-> "A", key |-> "k", oid |-> 0], [ev |-> "call", thr |-> "B", key |-> "k", oid |-> 0],
    [ev |-> "ret", thr |-> "B", key |-> "k", oid |-> 1], [ev |-> "ret", thr |-> "A", key |-> "k", oid |-> 1],
    [ev |-> "final", thr |-> "", key |-> "k", oid |-> 1]>>,
  <<[ev |-> "call", thr |-> "A", key |-> "k", oid |-> 0], [ev |-> "call", thr |-> "B", key |-> "k", oid |-> 0],
    [ev |-> "ret", thr |-> "B", key |-> "k", oid |-> 1], [ev |-> "ret", thr |-> "A", key |-> "k", oid |-> 2],
    [ev |-> "final", thr |-> "", key |-> "k", oid |-> 2]>>
>>
====
