---------------------------- MODULE Quantities ----------------------------
(***************************************************************************)
(* Quantity arithmetic and comparison at the public API boundary           *)
(* (C03 dimensional analysis, C06 unit-independence, C11 prefixes,         *)
(* C12 coherent comparisons).                                              *)
(*                                                                         *)
(* A quantity is [m |-> rational <<n,d>>, k |-> kind, u |-> unit]; a unit  *)
(* is [p10 |-> decimal prefix exponent, p2 |-> binary prefix exponent,     *)
(* f |-> bag Base -> Int].  The physical (SI) value of a quantity is       *)
(* Phys(q) = [r |-> m, pv |-> size(u)], meaning r * 2^i 3^j 5^k, which is  *)
(* closed under all the operators without overflow.  Each operator         *)
(* spelling of the API is one action; the event carries what the           *)
(* properties prescribe for it: outcome class, dimension, whether the      *)
(* magnitude must be a Decimal, the unit for + and -, the physical value   *)
(* and the truth value of comparisons.                                     *)
(***************************************************************************)
EXTENDS Num, Sequences, FiniteSets, TLC

CONSTANTS Base, bdim, Fund, bsize,     \* bsize : Base -> prime vector (exactly consistent synthetic system S2)
          Pool,                        \* sequence of quantities
          Units,                       \* sequence of units (for q*u, q/u, in_unit)
          Scalars,                     \* sequence of plain numbers [m, k]
          Uncs,                        \* sequence of non-negative uncertainties (rationals)
          Powers, Roots

VARIABLES ev
vars == <<ev>>

ZeroBag == [b \in Base |-> 0]
UnitOne == [p10 |-> 0, p2 |-> 0, f |-> ZeroBag]
Support(f) == {b \in Base : f[b] # 0}
RECURSIVE SumDim(_, _, _)
SumDim(S, f, i) == IF S = {} THEN 0
                   ELSE LET b == CHOOSE x \in S : TRUE IN f[b] * bdim[b][i] + SumDim(S \ {b}, f, i)
Dim(u) == [i \in Fund |-> SumDim(Support(u.f), u.f, i)]
RECURSIVE SumSize(_, _)
SumSize(S, f) == IF S = {} THEN PV0
                 ELSE LET b == CHOOSE x \in S : TRUE IN PAdd(PScale(f[b], bsize[b]), SumSize(S \ {b}, f))
USize(u) == PAdd(PAdd(PTen(u.p10), <<u.p2, 0, 0>>), SumSize(Support(u.f), u.f))
UMul(u, v) == [p10 |-> u.p10 + v.p10, p2 |-> u.p2 + v.p2, f |-> [b \in Base |-> u.f[b] + v.f[b]]]
UDiv(u, v) == [p10 |-> u.p10 - v.p10, p2 |-> u.p2 - v.p2, f |-> [b \in Base |-> u.f[b] - v.f[b]]]
UPow(u, n) == [p10 |-> u.p10 * n, p2 |-> u.p2 * n, f |-> [b \in Base |-> u.f[b] * n]]
DMul(d, e) == [i \in Fund |-> d[i] + e[i]]
DDiv(d, e) == [i \in Fund |-> d[i] - e[i]]
DPow(d, n) == [i \in Fund |-> d[i] * n]
DZero == [i \in Fund |-> 0]

Phys(q) == [r |-> q.m, pv |-> USize(q.u)]
\* bring x to the scale of y: x.r * 2^(x.pv - y.pv)
Rescale(x, y) == RMul(x.r, PRat(PAdd(x.pv, PNeg(y.pv))))
PhAdd(x, y) == [r |-> RAdd(Rescale(x, y), y.r), pv |-> y.pv]
PhSub(x, y) == [r |-> RSub(Rescale(x, y), y.r), pv |-> y.pv]
PhMul(x, y) == [r |-> RMul(x.r, y.r), pv |-> PAdd(x.pv, y.pv)]
PhDiv(x, y) == [r |-> RDiv(x.r, y.r), pv |-> PAdd(x.pv, PNeg(y.pv))]
PhPow(x, n) == [r |-> RPow(x.r, n), pv |-> PScale(n, x.pv)]
PhEq(x, y) == Rescale(x, y) = y.r
PhLt(x, y) == RLt(Rescale(x, y), y.r)
Dec(a, b) == a = "Decimal" \/ b = "Decimal"

NoPhys == [r |-> <<0, 1>>, pv |-> PV0]
Ev(op, i, j, n, out, dim, dec, unit, phys, truth) ==
  [op |-> op, i |-> i, j |-> j, n |-> n, out |-> out, dim |-> dim, dec |-> dec, unit |-> unit, phys |-> phys, truth |-> truth]

Init == ev = Ev("init", 0, 0, 0, "ok", DZero, FALSE, UnitOne, NoPhys, FALSE)

\* + and - : left operand's unit; incommensurable operands are rejected
AddSub(op, i, j) == LET a == Pool[i] b == Pool[j] IN
  ev' = IF Dim(a.u) # Dim(b.u)
        THEN Ev(op, i, j, 0, "reject", DZero, FALSE, a.u, NoPhys, FALSE)
        ELSE Ev(op, i, j, 0, "ok", Dim(a.u), Dec(a.k, b.k), a.u,
                IF op = "add" THEN PhAdd(Phys(a), Phys(b)) ELSE PhSub(Phys(a), Phys(b)), FALSE)
MulDiv(op, i, j) == LET a == Pool[i] b == Pool[j] IN
  /\ (op = "div" => b.m[1] # 0)
  /\ ev' = Ev(op, i, j, 0, "ok", IF op = "mul" THEN DMul(Dim(a.u), Dim(b.u)) ELSE DDiv(Dim(a.u), Dim(b.u)),
              Dec(a.k, b.k), IF op = "mul" THEN UMul(a.u, b.u) ELSE UDiv(a.u, b.u),
              IF op = "mul" THEN PhMul(Phys(a), Phys(b)) ELSE PhDiv(Phys(a), Phys(b)), FALSE)
Pow(i, n) == LET a == Pool[i] IN
  /\ (n < 0 => a.m[1] # 0)
  /\ ev' = Ev("pow", i, 0, n, "ok", DPow(Dim(a.u), n), a.k = "Decimal", UPow(a.u, n), PhPow(Phys(a), n), FALSE)
Divides(n, e) == e % (IF n < 0 THEN -n ELSE n) = 0
Root(i, n) == LET a == Pool[i] IN
  /\ a.m[1] > 0
  /\ ev' = IF Divides(n, a.u.p10) /\ Divides(n, a.u.p2) /\ \A b \in Base : Divides(n, a.u.f[b])
           THEN Ev("root", i, 0, n, "ok", [x \in Fund |-> Dim(a.u)[x] \div n], a.k = "Decimal", a.u, Phys(a), FALSE)
           ELSE Ev("root", i, 0, n, "Fractional", DZero, FALSE, a.u, Phys(a), FALSE)
Unary(op, i) == LET a == Pool[i] IN
  ev' = Ev(op, i, 0, 0, "ok", Dim(a.u), a.k = "Decimal", a.u,
           [r |-> IF op = "neg" THEN RNeg(a.m) ELSE IF op = "abs" THEN RAbs(a.m) ELSE a.m, pv |-> USize(a.u)], FALSE)
\* plain number on either side: n*q, q*n, q/n, n/q
Scalar(op, i, s) == LET a == Pool[i] c == Scalars[s] IN
  /\ (op = "qdivn" => c.m[1] # 0) /\ (op = "ndivq" => a.m[1] # 0)
  /\ ev' = Ev(op, i, s, 0, "ok", IF op = "ndivq" THEN DPow(Dim(a.u), -1) ELSE Dim(a.u), Dec(a.k, c.k),
              IF op = "ndivq" THEN UPow(a.u, -1) ELSE a.u,
              CASE op \in {"nmulq", "qmuln"} -> [r |-> RMul(c.m, a.m), pv |-> USize(a.u)]
                [] op = "qdivn" -> [r |-> RDiv(a.m, c.m), pv |-> USize(a.u)]
                [] op = "ndivq" -> [r |-> RDiv(c.m, a.m), pv |-> PNeg(USize(a.u))], FALSE)
\* unit on either side: q*u, u*q, q/u
WithUnit(op, i, t) == LET a == Pool[i] w == Units[t] IN
  ev' = Ev(op, i, t, 0, "ok", IF op = "qdivu" THEN DDiv(Dim(a.u), Dim(w)) ELSE DMul(Dim(a.u), Dim(w)), a.k = "Decimal",
           IF op = "qdivu" THEN UDiv(a.u, w) ELSE UMul(a.u, w),
           [r |-> a.m, pv |-> IF op = "qdivu" THEN PAdd(USize(a.u), PNeg(USize(w))) ELSE PAdd(USize(a.u), USize(w))], FALSE)
\* a prefix applied to a (possibly already prefixed) unit, written on the left (side 1) or on the right (side 2):
\* same-base exponents add; `dec` = TRUE stands for the binary base, FALSE for the decimal one; e = 0 is the
\* identity prefix, which must be neutral
PrefixOnUnit(t, binary, e, side) == LET w == Units[t]
                                      r == IF binary THEN [w EXCEPT !.p2 = @ + e] ELSE [w EXCEPT !.p10 = @ + e] IN
  ev' = Ev("pfx", t, side, e, "ok", Dim(w), binary, r, [r |-> <<1, 1>>, pv |-> USize(r)], FALSE)
\* conversion to a unit of another dimension must be rejected; of the same dimension it keeps the physical value
InUnit(i, t) == LET a == Pool[i] w == Units[t] IN
  ev' = IF Dim(a.u) # Dim(w) THEN Ev("in_unit", i, t, 0, "reject", DZero, FALSE, w, NoPhys, FALSE)
        ELSE Ev("in_unit", i, t, 0, "ok-or-CNF", Dim(w), a.k = "Decimal", w, Phys(a), FALSE)
\* comparisons: six operators in both argument orders are derived by the harness from (eq, lt)
Compare(i, j) == LET a == Pool[i] b == Pool[j] IN
  ev' = IF Dim(a.u) # Dim(b.u) THEN Ev("cmp", i, j, 0, "reject", DZero, FALSE, a.u, NoPhys, FALSE)
        ELSE Ev("cmp", i, j, IF PhLt(Phys(a), Phys(b)) THEN -1 ELSE IF PhEq(Phys(a), Phys(b)) THEN 0 ELSE 1,
                "ok", Dim(a.u), FALSE, a.u, NoPhys, PhEq(Phys(a), Phys(b)))

\* C12 for measurements: x == y exactly when y == x.  A measurement is Pool[i] +/- Uncs[s] (in Pool[i]'s unit).
\* The spec classifies the relation of the two physical intervals (n): 0 disjoint, 1 touching, 2 partial overlap,
\* 3 first nested in second, 4 second nested in first, 5 identical - the harness demands symmetry in every class.
Lo(q, s) == [r |-> RSub(q.m, s), pv |-> USize(q.u)]
Hi(q, s) == [r |-> RAdd(q.m, s), pv |-> USize(q.u)]
PhLe(x, y) == PhLt(x, y) \/ PhEq(x, y)
MeasPair(i, j, s, t) == LET a == Pool[i] b == Pool[j] sa == Uncs[s] sb == Uncs[t]
                            al == Lo(a, sa) ah == Hi(a, sa) bl == Lo(b, sb) bh == Hi(b, sb) IN
  /\ Dim(a.u) = Dim(b.u)
  /\ ev' = Ev("meas", i, j,
              IF PhLt(ah, bl) \/ PhLt(bh, al) THEN 0
              ELSE IF PhEq(ah, bl) \/ PhEq(bh, al) THEN 1
              ELSE IF PhEq(al, bl) /\ PhEq(ah, bh) THEN 5
              ELSE IF PhLe(bl, al) /\ PhLe(ah, bh) THEN 3
              ELSE IF PhLe(al, bl) /\ PhLe(bh, ah) THEN 4 ELSE 2,
              "ok", Dim(a.u), FALSE, a.u, [r |-> sa, pv |-> sb], FALSE)

(* ---- the statement's laws, checked on the model itself ---- *)
\* C06 / C12 at the level of the spec: Phys is a homomorphism and the order is a total preorder on one dimension
C12_Trichotomy == \A i, j \in 1..Len(Pool) : Dim(Pool[i].u) = Dim(Pool[j].u) =>
     LET x == Phys(Pool[i]) y == Phys(Pool[j]) IN
       /\ (PhLt(x, y) \/ PhEq(x, y) \/ PhLt(y, x))
       /\ ~(PhLt(x, y) /\ PhEq(x, y)) /\ ~(PhLt(x, y) /\ PhLt(y, x))
       /\ (PhEq(x, y) <=> PhEq(y, x))
C06_AddCommutes == \A i, j \in 1..Len(Pool) : Dim(Pool[i].u) = Dim(Pool[j].u) =>
     PhEq(PhAdd(Phys(Pool[i]), Phys(Pool[j])), PhAdd(Phys(Pool[j]), Phys(Pool[i])))
C11_PrefixIsFactor == \A t \in 1..Len(Units) : LET w == Units[t] IN
     USize(w) = PAdd(PAdd(PTen(w.p10), <<w.p2, 0, 0>>), USize([w EXCEPT !.p10 = 0, !.p2 = 0]))
=============================================================================
