CONSTANTS
  Families <- MCFamilies
  Refs <- MCRefs
  J <- MCJ
INIT Init
NEXT MCNext
INVARIANT ExportSystem
INVARIANT ExportCase
INVARIANT Theorems
CHECK_DEADLOCK FALSE
