CONSTANTS
  Node <- MCNode
  Edges <- MCEdges
  InvalidateOnDeclare = FALSE
INIT Init
NEXT Next
INVARIANT C08_Function
CHECK_DEADLOCK FALSE
