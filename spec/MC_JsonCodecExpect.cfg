CONSTANTS
  MaxDepth = 2
INIT Init
NEXT MCNext
VIEW View
INVARIANT OpenInstallerMeansInstalled
CHECK_DEADLOCK FALSE
