CONSTANTS
  Base <- MCBase
  bdim <- MCbdim
  Fund <- MCFund
  bsize <- MCbsize
  Pool <- MCPool
  Units <- MCUnits
  Scalars <- MCScalars
  Uncs <- MCUncs
  Powers <- MCPowers
  Roots <- MCRoots
INIT Init
NEXT MCNext
INVARIANT ExportSystem
INVARIANT ExportCase
INVARIANT S2Consistent
INVARIANT Laws
CHECK_DEADLOCK FALSE
