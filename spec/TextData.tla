---- MODULE TextData ----
(* Placeholder: harness/text.py overwrites this with the symbol tables of the running library. *)
(* Toy tables: prefixes k, m; units m (metre), min (minute); "mm" splits, "min" is exact.       *)
EXTENDS TLC
DPBySym == (<<107>> :> 1 @@ <<109>> :> 2)
DUBySym == (<<109>> :> 1 @@ <<109, 105, 110>> :> 2)
DUByName == (<<109, 101, 116, 101, 114>> :> 1)
DPSymOf == (1 :> <<107>> @@ 2 :> <<109>>)
DUSymOf == (1 :> <<109>> @@ 2 :> <<109, 105, 110>>)
====
