CONSTANTS
  Base <- MCBase
  bdim <- MCbdim
  Fund <- MCFund
  PExp <- MCPExp
  Powers <- MCPowers
  Roots <- MCRoots
  MaxE <- MCMaxE
  MaxP <- MCMaxP
  Ops <- MCOps
  Shipped <- MCShipped
  Seeds <- MCSeeds
  Foreign <- MCForeign
  QKinds <- MCQKinds
INIT Init
NEXT MCNext
VIEW View
INVARIANT C01_DimConsistent
INVARIANT C01_ResultDim
INVARIANT C02_Canonical
INVARIANT C02_ResultObject
PROPERTY C01_Permanent
PROPERTY C02_SameObject
PROPERTY C15_Identity
CHECK_DEADLOCK FALSE
