CONSTANTS
  PBySym <- DPBySym
  UBySym <- DUBySym
  UByName <- DUByName
  PSymOf <- DPSymOf
  USymOf <- DUSymOf
INIT Init
NEXT MCNext
INVARIANT ExportCase
INVARIANT C13_PlainSymbols
CHECK_DEADLOCK FALSE
