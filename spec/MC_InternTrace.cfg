CONSTANTS
  Hist <- MCHist
  Threads <- MCThreads
INIT Init
NEXT Next
INVARIANT Report
INVARIANT C20_TableInjective
INVARIANT C20_Single
CHECK_DEADLOCK FALSE
