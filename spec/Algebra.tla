---------------------------- MODULE Algebra ----------------------------
(***************************************************************************)
(* C02 (and the prefix half of C11): dimensions and prefixes are canonical *)
(* objects forming abelian groups.                                         *)
(*                                                                         *)
(* A dimension is its exponent vector (a sequence of integers); a prefix   *)
(* is <<base, exponent>> with <<0, 0>> the identity prefix (the code's     *)
(* Prefix(0, 0); any base with exponent 0 denotes the identity too).       *)
(* Same-base products add exponents EXACTLY and must be the very same      *)
(* object; products of different bases are prescribed only as a numeric    *)
(* scale (kind "value"), carried as the pair of prefixes whose factors     *)
(* multiply.  One action per expression; the event carries the normal form *)
(* the expression must evaluate to.                                        *)
(***************************************************************************)
EXTENDS Integers, Sequences, FiniteSets, TLC
CONSTANTS Dims,       \* sequence of dimension vectors (all of one length)
          Prefixes,   \* sequence of registered prefixes <<base, exp>>
          Exps        \* integer exponents / root degrees
VARIABLES ev
vars == <<ev>>

DMul(a, b) == [k \in 1..Len(a) |-> a[k] + b[k]]
DDiv(a, b) == [k \in 1..Len(a) |-> a[k] - b[k]]
DPow(a, n) == [k \in 1..Len(a) |-> a[k] * n]
Divides(n, e) == e % (IF n < 0 THEN -n ELSE n) = 0
Quot(e, n) == IF n > 0 THEN (IF e >= 0 THEN e \div n ELSE -((-e) \div n)) ELSE (IF e >= 0 THEN -(e \div (-n)) ELSE ((-e) \div (-n)))
DRootOK(a, n) == \A k \in 1..Len(a) : Divides(n, a[k])
DRoot(a, n) == [k \in 1..Len(a) |-> Quot(a[k], n)]
DZero(a) == [k \in 1..Len(a) |-> 0]

Id == <<0, 0>>
PNorm(p) == IF p[2] = 0 THEN Id ELSE p
SameBase(p, q) == p = Id \/ q = Id \/ p[1] = q[1]
PBase(p, q) == IF p = Id THEN q[1] ELSE p[1]
PMul(p, q) == PNorm(<<PBase(p, q), p[2] + q[2]>>)
PDiv(p, q) == PNorm(<<PBase(p, q), p[2] - q[2]>>)
PPow(p, n) == PNorm(<<p[1], p[2] * n>>)

Ev(op, i, j, n, kind, d, p, q) == [op |-> op, i |-> i, j |-> j, n |-> n, kind |-> kind, d |-> d, p |-> p, q |-> q]
Init == ev = Ev("init", 0, 0, 0, "object", <<>>, Id, Id)

DimBin(op, i, j) == ev' = Ev(op, i, j, 0, "object", IF op = "dmul" THEN DMul(Dims[i], Dims[j]) ELSE DDiv(Dims[i], Dims[j]), Id, Id)
DimPow(i, n) == ev' = Ev("dpow", i, 0, n, "object", DPow(Dims[i], n), Id, Id)
DimRoot(i, n) == n # 0 /\ ev' = IF DRootOK(Dims[i], n) THEN Ev("droot", i, 0, n, "object", DRoot(Dims[i], n), Id, Id)
                                 ELSE Ev("droot", i, 0, n, "fractional", <<>>, Id, Id)
\* prefixes: same base -> the canonical object with the summed exponent; different bases -> value only (p times/over q)
PreBin(op, i, j) == LET p == Prefixes[i] q == Prefixes[j] IN
  ev' = IF SameBase(p, q)
        THEN Ev(op, i, j, 0, "object", <<>>, IF op = "pmul" THEN PMul(p, q) ELSE PDiv(p, q), Id)
        ELSE Ev(op, i, j, 0, "value", <<>>, p, q)
\* a product / quotient of prefixes of DIFFERENT bases raised to a power: prescribed as a value, (p op q)^n
\* (the library carries such a prefix with a non-integral exponent of one of the two bases)
PreBinPow(op, i, j, n) == LET p == Prefixes[i] q == Prefixes[j] IN
  ~SameBase(p, q) /\ ev' = Ev(IF op = "pmul" THEN "pmulpow" ELSE "pdivpow", i, j, n, "value", <<>>, p, q)
PrePow(i, n) == ev' = Ev("ppow", i, 0, n, "object", <<>>, PPow(Prefixes[i], n), Id)
PreRoot(i, n) == n # 0 /\ LET p == Prefixes[i] IN
  ev' = IF Divides(n, p[2]) THEN Ev("proot", i, 0, n, "object", <<>>, PNorm(<<p[1], Quot(p[2], n)>>), Id)
        ELSE Ev("proot", i, 0, n, "fractional", <<>>, Id, Id)

(* ---- the group laws as theorems of the normal forms ---- *)
DimLaws == \A i, j \in 1..Len(Dims) :
   /\ DMul(Dims[i], Dims[j]) = DMul(Dims[j], Dims[i])
   /\ DDiv(Dims[i], Dims[j]) = DMul(Dims[i], DPow(Dims[j], -1))
   /\ DMul(Dims[i], DPow(Dims[i], -1)) = DZero(Dims[i])
   /\ \A a, b \in Exps : DMul(DPow(Dims[i], a), DPow(Dims[i], b)) = DPow(Dims[i], a + b) /\ DPow(DPow(Dims[i], a), b) = DPow(Dims[i], a * b)
   /\ \A n \in Exps : n # 0 => DRoot(DPow(Dims[i], n), n) = Dims[i]
PreLaws == \A i, j \in 1..Len(Prefixes) : SameBase(Prefixes[i], Prefixes[j]) =>
   /\ PMul(Prefixes[i], Prefixes[j]) = PMul(Prefixes[j], Prefixes[i])
   /\ PDiv(Prefixes[i], Prefixes[j]) = PMul(Prefixes[i], PPow(Prefixes[j], -1))
   /\ PMul(Prefixes[i], PPow(Prefixes[i], -1)) = Id /\ PMul(Prefixes[i], Id) = Prefixes[i]
=============================================================================
