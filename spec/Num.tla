---------------------------- MODULE Num ----------------------------
(* Exact arithmetic for the oracles: rationals <<n, d>> (d > 0, gcd-normalised) and          *)
(* prime-exponent vectors <<i, j, k>> standing for 2^i 3^j 5^k.  TLC integers are 32-bit and *)
(* overflow is an error, so every configuration keeps intermediates below 2^30.              *)
EXTENDS Integers
RECURSIVE GCD(_, _)
GCD(a, b) == IF b = 0 THEN a ELSE GCD(b, a % b)
Abs(x) == IF x < 0 THEN -x ELSE x
Norm(n, d) == LET g == GCD(Abs(n), Abs(d)) s == IF d < 0 THEN -1 ELSE 1
              IN IF n = 0 THEN <<0, 1>> ELSE <<s * (n \div g), s * (d \div g)>>
Rat(n) == <<n, 1>>
\* addition over the least common denominator (keeps intermediates small)
RAdd(x, y) == LET g == GCD(x[2], y[2]) IN Norm(x[1] * (y[2] \div g) + y[1] * (x[2] \div g), (x[2] \div g) * y[2])
RNeg(x) == <<-x[1], x[2]>>
RSub(x, y) == RAdd(x, RNeg(y))
RMul(x, y) == LET a == Norm(x[1], y[2]) b == Norm(y[1], x[2]) IN Norm(a[1] * b[1], a[2] * b[2])
RInv(x) == IF x[1] < 0 THEN <<-x[2], -x[1]>> ELSE <<x[2], x[1]>>
RDiv(x, y) == RMul(x, RInv(y))
RLt(x, y) == LET g == GCD(x[2], y[2]) IN x[1] * (y[2] \div g) < y[1] * (x[2] \div g)
RAbs(x) == <<Abs(x[1]), x[2]>>
RECURSIVE IPow(_, _)
IPow(b, e) == IF e = 0 THEN 1 ELSE b * IPow(b, e - 1)
RPow(x, n) == IF n >= 0 THEN <<IPow(x[1], n), IPow(x[2], n)>> ELSE RInv(<<IPow(x[1], -n), IPow(x[2], -n)>>)
\* prime vectors
PV0 == <<0, 0, 0>>
PAdd(x, y) == <<x[1] + y[1], x[2] + y[2], x[3] + y[3]>>
PNeg(x) == <<-x[1], -x[2], -x[3]>>
PScale(n, x) == <<n * x[1], n * x[2], n * x[3]>>
PTen(p) == <<p, 0, p>>
PRat(v) == RMul(RMul(RPow(<<2, 1>>, v[1]), RPow(<<3, 1>>, v[2])), RPow(<<5, 1>>, v[3]))
=============================================================================
