---- MODULE LRData ----
(* Placeholder: harness/lr.py overwrites this module in its scratch directory with the tables of the  *)
(* shipped parser (A) and of the parser built from the grammar file (B).  A one-rule toy grammar      *)
(* S -> x keeps it parseable.                                                                          *)
EXTENDS TLC
DActA == (0 :> ("x" :> [k |-> "S", to |-> 1, rule |-> 0] @@ "S" :> [k |-> "S", to |-> 2, rule |-> 0]) @@
         1 :> ("$END" :> [k |-> "R", to |-> 0, rule |-> 1]) @@ 2 :> ("$END" :> [k |-> "S", to |-> 3, rule |-> 0]) @@ 3 :> ("$END" :> [k |-> "S", to |-> 3, rule |-> 0]))
DRulesA == (1 :> [origin |-> "S", len |-> 1, sig |-> "S -> x"])
DStartA == ("S" :> 0)
DEndA == ("S" :> 2)
DActB == DActA
DRulesB == DRulesA
DStartB == DStartA
DEndB == DEndA
DTerminals == {"x"}
DTermsA == ("x" :> "x")
DTermsB == DTermsA
DOptsA == "o"
DOptsB == "o"
====
