---- MODULE DefGraphData ----
EXTENDS Integers
(* Placeholder: harness/defgraph.py overwrites this with the declarations intercepted at import. *)
(* Toy: b = 2 a, c = 3 b, c = 6 a (consistent: ln 2 + ln 3 = ln 6 on the 1e-6 lattice).          *)
DRoots == {"a"}
DBases == {"a", "b", "c"}
DClasses == {{"a", "b", "c"}}
DDecls == << [lat |-> 693147, t |-> {<<"b", 1>>, <<"a", -1>>}], [lat |-> 1098612, t |-> {<<"c", 1>>, <<"b", -1>>}],
             [lat |-> 1791759, t |-> {<<"c", 1>>, <<"a", -1>>}] >>
====
