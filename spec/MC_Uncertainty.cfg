CONSTANTS
  Base <- MCBase
  bdim <- MCbdim
  Fund <- MCFund
  bsize <- MCbsize
  Pool <- MCPool
  Units <- MCUnits
  Scalars <- MCUnits
  Uncs <- MCUnits
  Powers <- MCExps
  Roots <- MCExps
  Meas <- MCMeas
  Exps <- MCExps
INIT UInit
NEXT MCNext
INVARIANT ExportSystem
INVARIANT ExportCase
CHECK_DEADLOCK FALSE
