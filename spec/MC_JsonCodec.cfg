CONSTANTS
  MaxDepth = 2
INIT Init
NEXT MCNext
VIEW View
ACTION_CONSTRAINT Export
INVARIANT ExportInit
INVARIANT WellNested
PROPERTY MisuseKeepsInstalled
CHECK_DEADLOCK FALSE
