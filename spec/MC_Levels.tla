---------------------------- MODULE MC_Levels ----------------------------
EXTENDS Levels, Json, IOUtils
EnvInt(name, default) == IF name \in DOMAIN IOEnv THEN atoi(IOEnv[name]) ELSE default
Tier == EnvInt("VERIF_LTIER", 1)
F(n, b, pb, pe) == [name |-> n, base |-> b, pb |-> pb, pe |-> pe]
MCFamilies == << F("bel", "10", 0, 0), F("decibel", "10", 10, -1), F("neper", "e", 0, 0), F("octave", "2", 0, 0),
                 F("semitone", "2", 12, -1), F("centioctave", "2", 10, -2), F("millibel", "10", 10, -3), F("kilobel", "10", 10, 3),
                 \* "any base": logarithms nobody registered, with and without a prefix
                 F("base-three", "3", 0, 0), F("deci-base-three", "3", 10, -1), F("base-sixteen", "16", 0, 0) >>
R(n, k) == [name |-> n, k |-> k]
\* power references (k = 1) and root-power references (k = 2), written in prefixed, unprefixed and non-SI units
MCRefs == << R("1 W", 1), R("1 mW", 1), R("1 pW/m^2", 1), R("550 ft*lbf/s", 1), R("440 Hz", 1), R("1 V", 2), R("20 uPa", 2), R("1 psi", 2), R("0.5 kV", 2), R("1 m/s", 2),
            R("1 Pa", 2), R("1 hp", 1), R("1 kn", 2) >>     \* same number and dimension as "1 psi", "1 W", "1 m/s" in other units
\* (6 and 18 give ODD integral levels for root-power references in plain bels, 3 and 9 odd ones for power references)
MCJ == IF Tier = 1 THEN {-40, -25, -12, -6, -5, -1, 0, 1, 2, 6, 7, 12, 18, 24, 36, 40} ELSE -40..40
MCKinds == {"float", "Decimal", "int"}      \* "int": the level is written as an int when it is integral (a float otherwise)
MCNext == TLCGet("level") = 1 /\ \E f \in 1..Len(MCFamilies), r \in 1..Len(MCRefs), j \in MCJ, mk \in MCKinds : Case(f, r, j, mk)
ExportCase == ev.op # "init" => PrintT("@@E " \o ToJson(ev))
ExportSystem == ev.op = "init" => PrintT("@@SYS " \o ToJson([families |-> MCFamilies, refs |-> MCRefs]))
Theorems == ev.op = "init" => (RoundTrip /\ ZeroAtReference /\ (Tier = 2 => Monotone))
=============================================================================
