---------------------------- MODULE MC_Algebra ----------------------------
EXTENDS Algebra, AlgebraData, Json
MCExps == -4..4
MCNext == TLCGet("level") = 1 /\
  \/ \E i \in 1..Len(DDims), j \in 1..Len(DDims), op \in {"dmul", "ddiv"} : DimBin(op, i, j)
  \/ \E i \in 1..Len(DDims), n \in MCExps : DimPow(i, n) \/ DimRoot(i, n)
  \/ \E i \in 1..Len(DPrefixes), j \in 1..Len(DPrefixes), op \in {"pmul", "pdiv"} : PreBin(op, i, j)
  \/ \E i \in 1..Len(DPrefixes), n \in MCExps : PrePow(i, n) \/ PreRoot(i, n)
  \/ \E i \in 1..Len(DPrefixes), j \in 1..Len(DPrefixes), op \in {"pmul", "pdiv"}, n \in {-3, -1, 2, 3} : PreBinPow(op, i, j, n)
ExportCase == ev.op # "init" => PrintT("@@E " \o ToJson(ev))
Laws == ev.op = "init" => (DimLaws /\ PreLaws)
=============================================================================
