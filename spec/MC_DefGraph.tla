---------------------------- MODULE MC_DefGraph ----------------------------
EXTENDS DefGraph, DefGraphData, Json
\* report instead of stopping at the first alarm: every inconsistent declaration and every ungrounded unit
ExportPair == ev.op = "pair" => PrintT("@@PAIR " \o ToJson([a |-> ev.b, b |-> ev.to, lat |-> ev.i]))
Report == (Done /\ ev.op # "pair") =>
   /\ \A i \in 1..Len(DDecls) : LET d == DDecls[i] IN
        ((Mentioned(d) \subseteq DOMAIN size) /\ Abs(Residual(d, size)) > Tol(d)) =>
            PrintT("@@BAD " \o ToJson([kind |-> "residual", i |-> i, res |-> Residual(d, size), tol |-> Tol(d)]))
   /\ \A b \in DBases : (b \notin DOMAIN size) =>
            PrintT("@@UNGROUNDED " \o ToJson([b |-> b]))
   /\ PrintT("@@SIZES " \o ToJson(size))
=============================================================================
