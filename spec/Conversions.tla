---------------------------- MODULE Conversions ----------------------------
(***************************************************************************)
(* Unit conversion at the public API boundary: Declare (Unit.equals),      *)
(* Query (Quantity.in_unit) and Compare (==, <).                           *)
(*                                                                         *)
(* The abstract state is `decl`, the sequence of equivalences declared so  *)
(* far (projection of conversions._ratios) and `hist`, the calls made so   *)
(* far.  There is deliberately NO memo table: the properties say that the  *)
(* outcome of a query is a function of `decl` alone (C08), that it is ok   *)
(* or ConversionNotFound (C07), and that an ok result carries the asked    *)
(* unit and the magnitude scaled by Size(u)/Size(v) (C04, C05).            *)
(*                                                                         *)
(* Sizes are derived INSIDE the spec from the declarations only: every     *)
(* ratio of a synthetic system is 2^i 3^j 5^k, carried as the vector       *)
(* <<i,j,k>>, so products are sums and nothing overflows.  A unit is       *)
(* [p |-> decimal prefix exponent, f |-> bag Base -> Int].                 *)
(***************************************************************************)
EXTENDS Integers, Sequences, FiniteSets, TLC

CONSTANTS Base,       \* base-unit tokens
          bdim,       \* Base -> [Fund -> Int]
          Fund,
          Cands,      \* sequence of candidate declarations [l |-> base, lp |-> Int, pv |-> <<i,j,k>>, p |-> Int, r |-> bag]:
                      \*   1 (10^lp l) = 2^i 3^j 5^k * 10^p * PROD r      i.e. (Prefix(10,lp)*l).equals(k * Prefix(10,p)*r)
          Roots       \* bases whose size is 1 by convention (one per connected component is enough)

VARIABLES decl,       \* sequence of indices into Cands, in declaration order
          hist,       \* sequence of events (the observable history)
          ev

vars == <<decl, hist, ev>>

PV0 == <<0, 0, 0>>
Add(x, y) == <<x[1] + y[1], x[2] + y[2], x[3] + y[3]>>
Neg(x) == <<-x[1], -x[2], -x[3]>>
Scale(n, x) == <<n * x[1], n * x[2], n * x[3]>>
Ten(p) == <<p, 0, p>>                       \* 10^p

ZeroBag == [b \in Base |-> 0]
U(p, f) == [p |-> p, f |-> f]
Single(b) == U(0, [c \in Base |-> IF c = b THEN 1 ELSE 0])
Support(f) == {b \in Base : f[b] # 0}

RECURSIVE SumDim(_, _, _)
SumDim(S, f, i) == IF S = {} THEN 0
                   ELSE LET b == CHOOSE x \in S : TRUE IN f[b] * bdim[b][i] + SumDim(S \ {b}, f, i)
DimOf(f) == [i \in Fund |-> SumDim(Support(f), f, i)]

Declared == {decl[i] : i \in 1..Len(decl)}
\* A later declaration for the same pair of units replaces the earlier one (conversions.equate stores one ratio
\* per pair): the equivalences in force are the LAST declaration of every pair.
SamePair(c, d) == c.l = d.l /\ c.r = d.r
EffOf(seq) == {seq[k] : k \in {x \in 1..Len(seq) : ~\E j \in (x + 1)..Len(seq) : SamePair(Cands[seq[x]], Cands[seq[j]])}}
Effective == EffOf(decl)

(* ---- solving sizes from declarations ---- *)
RECURSIVE SumSize(_, _, _)
SumSize(S, f, size) == IF S = {} THEN PV0
                       ELSE LET b == CHOOSE x \in S : TRUE IN Add(Scale(f[b], size[b]), SumSize(S \ {b}, f, size))
BagSize(f, size) == SumSize(Support(f), f, size)
\* the size the declaration gives to its (unprefixed) left unit
Rhs(c, size) == Add(Add(Add(c.pv, Ten(c.p)), BagSize(c.r, size)), Neg(Ten(c.lp)))

\* a declaration is usable when exactly one of the bases it mentions is still unsized and that
\* base occurs with exponent +1 or -1 (or is the left side)
Mentioned(c) == {c.l} \cup Support(c.r)
Unsized(c, size) == Mentioned(c) \ DOMAIN size
RECURSIVE Solve(_, _)
Solve(size, pending) ==
  LET usable == {i \in pending : LET c == Cands[i] IN
                   /\ Cardinality(Unsized(c, size)) = 1
                   /\ LET x == CHOOSE b \in Unsized(c, size) : TRUE
                      IN IF x = c.l THEN c.r[x] = 0 ELSE c.r[x] \in {1, -1} /\ c.l \in DOMAIN size}
  IN IF usable = {} THEN size
     ELSE LET i == CHOOSE j \in usable : \A k \in usable : j <= k
              c == Cands[i]
              x == CHOOSE b \in Unsized(c, size) : TRUE
              v == IF x = c.l
                   THEN Rhs(c, size)
                   ELSE \* size[l] = pv + 10^p + rest + e*size[x]  =>  size[x] = (size[l] - pv - 10^p - rest) / e
                        LET rest == BagSize([c.r EXCEPT ![x] = 0], size)
                            num  == Add(Add(size[c.l], Ten(c.lp)), Neg(Add(Add(c.pv, Ten(c.p)), rest)))
                        IN IF c.r[x] = 1 THEN num ELSE Neg(num)
          IN Solve(size @@ (x :> v), pending \ {i})

SizesFrom(roots) == Solve([r \in roots |-> PV0], Effective)
Sizes == SizesFrom(Roots)
Sized(u, size) == Support(u.f) \subseteq DOMAIN size
USize(u, size) == Add(Ten(u.p), BagSize(u.f, size))

\* every declaration agrees with the solved sizes (the synthetic system is exactly consistent)
Consistent == ev.op \in {"declare", "init"} => LET size == Sizes IN
  \A i \in Effective : LET c == Cands[i] IN
     (Mentioned(c) \subseteq DOMAIN size) => size[c.l] = Rhs(c, size)
\* (for guards: a set of equivalences in force that do not contradict each other)
ConsistentSet(eff) == LET size == Solve([r \in Roots |-> PV0], eff) IN
  \A i \in eff : LET c == Cands[i] IN (Mentioned(c) \subseteq DOMAIN size) => size[c.l] = Rhs(c, size)

(* ---- node-level connectivity (single base units, plain declarations l = k * r') ---- *)
IsNodeDecl(c) == Cardinality(Support(c.r)) = 1 /\ \E b \in Base : c.r[b] = 1
Other(c) == CHOOSE b \in Base : c.r[b] = 1
Adj(n) == {Other(Cands[i]) : i \in {j \in Effective : Cands[j].l = n /\ IsNodeDecl(Cands[j])}}
          \cup {Cands[i].l : i \in {j \in Effective : IsNodeDecl(Cands[j]) /\ Other(Cands[j]) = n}}
RECURSIVE Reach(_, _)
Reach(front, done) == LET nxt == (UNION {Adj(n) : n \in front}) \ (done \cup front)
                      IN IF nxt = {} THEN done \cup front ELSE Reach(nxt, done \cup front)
Connected(a, b) == b \in Reach({a}, {})
NodeRatio(a, b) == LET size == SizesFrom({b}) IN size[a]          \* defined when Connected(a, b)

\* F for single base units of one dimension: a function of decl only
FNode(a, b) == IF a = b THEN [out |-> "ok", pv |-> PV0]
               ELSE IF Connected(a, b) THEN [out |-> "ok", pv |-> NodeRatio(a, b)]
               ELSE [out |-> "CNF", pv |-> PV0]

(* ---- actions ---- *)
Ev(op, i, u, v, out, pv, m) == [op |-> op, i |-> i, u |-> u, v |-> v, out |-> out, pv |-> pv, m |-> m]

Declare(i) ==
  /\ i \notin Declared
  /\ decl' = Append(decl, i)
  /\ ev' = Ev("declare", i, U(Cands[i].lp, Single(Cands[i].l).f), U(Cands[i].p, Cands[i].r), "ok", Cands[i].pv, 0)
  /\ hist' = Append(hist, ev')

\* node query: outcome fully prescribed
QueryNode(a, b, m) ==
  /\ LET r == FNode(a, b) IN ev' = Ev("query", 0, Single(a), Single(b), r.out, r.pv, m)
  /\ hist' = Append(hist, ev')
  /\ UNCHANGED decl
CompareNode(a, b, m) ==
  /\ LET r == FNode(a, b) IN ev' = Ev("compare", 0, Single(a), Single(b), r.out, r.pv, m)
  /\ hist' = Append(hist, ev')
  /\ UNCHANGED decl

\* general query between units of equal dimension: the spec prescribes the VALUE of an ok result
\* (conditional on success, C04) but not whether the planner succeeds
QueryUnit(u, v, m) ==
  /\ DimOf(u.f) = DimOf(v.f)
  /\ LET size == Sizes IN
       /\ Sized(u, size) /\ Sized(v, size)
       /\ ev' = Ev("convert", 0, u, v, "ok-or-CNF", Add(USize(u, size), Neg(USize(v, size))), m)
  /\ hist' = Append(hist, ev')
  /\ UNCHANGED decl

Init == decl = <<>> /\ hist = <<>> /\ ev = Ev("init", 0, U(0, ZeroBag), U(0, ZeroBag), "ok", PV0, 0)

(* ---- properties ---- *)
C07_Class == ev.op \in {"query", "compare"} => ev.out \in {"ok", "CNF"}
C04_Value == ev.op \in {"query", "compare"} /\ ev.out = "ok" /\ ev.u # ev.v =>
               ev.pv = NodeRatio(CHOOSE b \in Base : ev.u.f[b] = 1, CHOOSE b \in Base : ev.v.f[b] = 1)
\* the equivalences in force after the first k events of the history
DeclIdx(k) == LET s == SelectSeq(SubSeq(hist, 1, k), LAMBDA e : e.op = "declare") IN [x \in 1..Len(s) |-> s[x].i]
EffAt(k) == EffOf(DeclIdx(k))
\* C08 on the model: a query's outcome is F(decl, u, v) - whatever happened before it
C08_Function == \A k \in 1..Len(hist) : hist[k].op \in {"query", "compare"} =>
                  \A j \in 1..Len(hist) :
                     (hist[j].op = hist[k].op /\ hist[j].u = hist[k].u /\ hist[j].v = hist[k].v
                      /\ EffAt(j) = EffAt(k))
                     => hist[j].out = hist[k].out /\ hist[j].pv = hist[k].pv
\* C05 theorems of the size model: there-and-back and via-intermediate
\* (they depend on decl only, so they are evaluated in the states that follow a declaration)
C05_RoundTrip == ev.op = "declare" => \A a, b \in Base : (bdim[a] = bdim[b] /\ Connected(a, b)) =>
                    Add(NodeRatio(a, b), NodeRatio(b, a)) = PV0
C05_Route == ev.op = "declare" => \A a, b, c \in Base : (bdim[a] = bdim[b] /\ bdim[b] = bdim[c] /\ Connected(a, b) /\ Connected(b, c)) =>
                    Add(NodeRatio(a, b), NodeRatio(b, c)) = NodeRatio(a, c)
=============================================================================
