---- MODULE AlgebraData ----
(* Placeholder: harness/algebra.py overwrites this with the registered dimensions and prefixes of the library. *)
EXTENDS Integers
DDims == << <<0, 1, 0>>, <<0, 0, 1>>, <<0, 1, -2>> >>
DPrefixes == << <<10, 3>>, <<10, -3>>, <<2, 10>>, <<0, 0>> >>
====
