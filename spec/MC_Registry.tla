---------------------------- MODULE MC_Registry ----------------------------
(* Model-checking wrapper for Registry: constants as definitions, VIEW, transition export. *)
(* Tier parameters come from the environment (IOEnv) so that one module serves all tiers. *)
EXTENDS Registry, Json, IOUtils

EnvInt(name, default) == IF name \in DOMAIN IOEnv THEN atoi(IOEnv[name]) ELSE default
EnvSet(name) == IF name \in DOMAIN IOEnv THEN IOEnv[name] ELSE ""

Depth == EnvInt("VERIF_DEPTH", 2)
Universe == EnvInt("VERIF_UNIVERSE", 1)

MCFund == {"L", "T", "M"}
MCBase == IF Universe = 1 THEN {"b1", "b2", "b3"} ELSE {"b1", "b2", "b3", "b4"}
\* b1, b2: two base units of the SAME dimension (roots can be dimension-divisible but not
\* factor-divisible); b3: mixed-sign dimension (force-like); b4: only negative exponents
MCbdim == [b \in MCBase |->
             CASE b = "b1" -> [L |-> 1, T |-> 0, M |-> 0]
               [] b = "b2" -> [L |-> 1, T |-> 0, M |-> 0]
               [] b = "b3" -> [L |-> 1, T |-> -2, M |-> 1]
               [] b = "b4" -> [L |-> 0, T |-> -1, M |-> 0]]
MCPExp   == IF Universe = 1 THEN {3, -3} ELSE {3, -3, 6, -2}
MCPowers == IF Universe = 1 THEN {-3, -1, 2} ELSE {-3, -2, -1, 2, 3}
MCRoots  == IF Universe = 1 THEN {2} ELSE {2, 3, -2}
MCMaxE   == IF Universe = 1 THEN 3 ELSE 4
MCMaxP   == IF Universe = 1 THEN 6 ELSE 12
\* operation sets per configuration
Seeded == EnvInt("VERIF_SEEDS", 0)
S2(x, e1, y, e2, p) == U(p, [b \in MCBase |-> IF b = x THEN e1 ELSE IF b = y THEN e2 ELSE 0])
\* seeds: a square, a prefixed square, a dimensionless ratio and its square, a mixed quotient, an inverse, a bare prefix
MCSeeds == IF Seeded = 0 THEN {} ELSE
   {S2("b1", 2, "b2", 0, 0), S2("b1", 2, "b2", 0, 3), S2("b1", 1, "b2", -1, 0), S2("b1", 2, "b2", -2, 0),
    S2("b3", 1, "b1", -1, 0), S2("b3", -1, "b1", 0, 0), S2("b1", 1, "b2", 0, 3),
    S2("b1", 0, "b2", 0, 6)}        \* mega * One: every factor cancelled, a prefix is left (its square root is kilo * One)
\* foreign units (serialised by another process): a few shapes (quick) or every small one/two-factor unit
MCQKinds == IF EnvInt("VERIF_KINDS", 5) = 1 THEN {0} ELSE IF EnvInt("VERIF_KINDS", 5) = 2 THEN {0, 1}
            ELSE IF EnvInt("VERIF_KINDS", 5) = 4 THEN {0, 1, 2, 3} ELSE {0, 1, 2, 3, 4}
MCForeignShapes ==
   IF EnvInt("VERIF_FOREIGN", 1) = 1
   THEN {S2("b1", 1, "b2", -1, 0), S2("b1", 1, "b3", -1, 0), S2("b3", 2, "b1", 0, 0), S2("b1", 2, "b2", 0, 3),
         S2("b2", -1, "b1", 0, 0), S2("b1", 1, "b2", 1, 0), S2("b3", 1, "b1", -1, 3), S2("b1", 2, "b2", -2, 0)}
   ELSE {S2(x, e1, y, e2, p) : x \in MCBase, y \in MCBase, e1 \in {-2, -1, 1, 2}, e2 \in {-1, 0, 1}, p \in {0, 3}}
MCForeign == IF EnvSet("VERIF_OPS") \notin {"foreign", "foreignq"} THEN {}
   ELSE MCSeeds \cup {U(0, [c \in MCBase |-> IF c = b THEN 1 ELSE 0]) : b \in MCBase} \cup MCForeignShapes
MCOps == LET s == EnvSet("VERIF_OPS") IN
         IF s = "codec" THEN {"pmul", "dump", "load"}
         ELSE IF s = "foreign" THEN {"loadf", "mul", "div"}
         ELSE IF s = "foreignq" THEN {"loadf"}
         ELSE IF s = "defdim" THEN {"dump", "load", "defdim", "touch"}
         ELSE IF s = "roots" THEN {"div", "pow", "root"}
         ELSE IF s = "ratio" THEN {"pow", "as_ratio"}
         ELSE IF s = "touch" THEN {"mul", "div", "pow", "root", "as_ratio", "render", "touch"}
         ELSE {"mul", "div", "pow", "root", "pmul", "as_ratio", "quantify", "render"}
MCShipped == LET s == EnvSet("VERIF_SHIPPED") IN
             IF s = "as_ratio_dim" THEN {"as_ratio_dim"}
             ELSE IF s = "root_floor" THEN {"root_floor"} ELSE {}

MCNext == TLCGet("level") <= Depth /\ Next
View == <<known, dimOf, pickled>>
Abs == [k |-> {[u |-> u, d |-> dimOf[u]] : u \in known}, pk |-> pickled]
ExportSeeds == (ev.op = "init") => PrintT("@@SEEDS " \o ToJson([seeds |-> MCSeeds, foreign |-> MCForeign]))
Export == PrintT("@@T " \o ToJson([from |-> Abs, ev |-> ev', to |-> Abs']))
\* simulation mode: one line per chosen state (invariants are evaluated on the chosen successor only)
ExportStep == PrintT("@@S " \o ToJson([ev |-> ev]))
ExportInit == (ev.op = "init") => PrintT("@@I " \o ToJson(Abs))
=============================================================================
