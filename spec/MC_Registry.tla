---------------------------- MODULE MC_Registry ----------------------------
(* Model-checking wrapper for Registry: constants as definitions, VIEW, transition export. *)
(* Tier parameters come from the environment (IOEnv) so that one module serves all tiers. *)
EXTENDS Registry, Json, IOUtils

EnvInt(name, default) == IF name \in DOMAIN IOEnv THEN atoi(IOEnv[name]) ELSE default
EnvSet(name) == IF name \in DOMAIN IOEnv THEN IOEnv[name] ELSE ""

Depth == EnvInt("VERIF_DEPTH", 2)
Universe == EnvInt("VERIF_UNIVERSE", 1)

MCFund == {"L", "T", "M"}
MCBase == IF Universe = 1 THEN {"b1", "b2", "b3"} ELSE {"b1", "b2", "b3", "b4"}
\* b1, b2: two base units of the SAME dimension (roots can be dimension-divisible but not
\* factor-divisible); b3: mixed-sign dimension (force-like); b4: only negative exponents
MCbdim == [b \in MCBase |->
             CASE b = "b1" -> [L |-> 1, T |-> 0, M |-> 0]
               [] b = "b2" -> [L |-> 1, T |-> 0, M |-> 0]
               [] b = "b3" -> [L |-> 1, T |-> -2, M |-> 1]
               [] b = "b4" -> [L |-> 0, T |-> -1, M |-> 0]]
MCPExp   == IF Universe = 1 THEN {3, -3} ELSE {3, -3, 6, -2}
MCPowers == IF Universe = 1 THEN {-3, -1, 2} ELSE {-3, -2, -1, 2, 3}
MCRoots  == IF Universe = 1 THEN {2} ELSE {2, 3, -2}
MCMaxE   == IF Universe = 1 THEN 3 ELSE 4
MCMaxP   == IF Universe = 1 THEN 6 ELSE 12
\* operation sets per configuration
MCOps == LET s == EnvSet("VERIF_OPS") IN
         IF s = "codec" THEN {"mul", "div", "pmul", "dump", "load"}
         ELSE IF s = "touch" THEN {"mul", "div", "pow", "root", "as_ratio", "render", "touch"}
         ELSE {"mul", "div", "pow", "root", "pmul", "as_ratio", "quantify", "render"}
MCShipped == LET s == EnvSet("VERIF_SHIPPED") IN
             IF s = "as_ratio_dim" THEN {"as_ratio_dim"}
             ELSE IF s = "root_floor" THEN {"root_floor"} ELSE {}

MCNext == TLCGet("level") <= Depth /\ Next
View == <<known, dimOf, pickled>>
Abs == [k |-> {[u |-> u, d |-> dimOf[u]] : u \in known}, pk |-> pickled]
Export == PrintT("@@T " \o ToJson([from |-> Abs, ev |-> ev', to |-> Abs']))
\* simulation mode: one line per chosen state (invariants are evaluated on the chosen successor only)
ExportStep == PrintT("@@S " \o ToJson([ev |-> ev]))
ExportInit == (ev.op = "init") => PrintT("@@I " \o ToJson(Abs))
=============================================================================
