---- MODULE LRTraceData ----
(* Placeholder: harness/lr.py overwrites this with the runs recorded from the shipped parser engine. *)
DTraces == << [start |-> "S", toks |-> <<"x">>, stacks |-> << <<0, 1>> >>, ended |-> TRUE, accepted |-> TRUE] >>
====
