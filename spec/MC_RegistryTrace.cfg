INIT Init
NEXT Next
INVARIANT ReportDone
CHECK_DEADLOCK FALSE
