---------------------------- MODULE LR ----------------------------
(***************************************************************************)
(* C16 / C17 at the token level: a generic LALR(1) table interpreter and   *)
(* the product of two tables.                                              *)
(*                                                                         *)
(* A table maps a state to a row; a row maps a symbol (terminal or         *)
(* non-terminal name) to [k |-> "S", to |-> state] (shift / goto) or       *)
(* [k |-> "R", rule |-> rule name].  Rules are [origin, len, sig] where    *)
(* sig is the normalised signature of the rule (origin, expansion with     *)
(* filter flags, alias, options, order) - two rules are the same rule iff  *)
(* their signatures are equal.  TabA is the table embedded in the shipped  *)
(* generated parser, TabB the table built at check time from the grammar   *)
(* file; both arrive as literal constants in module LRData (generated).    *)
(***************************************************************************)
EXTENDS Integers, Sequences, FiniteSets, TLC
CONSTANTS ActA, RulesA, StartA, EndA, ActB, RulesB, StartB, EndB, Terminals, MaxLen,
          Traces     \* recorded runs of the SHIPPED engine: [start, toks, stacks (after each token), ended, accepted]

VARIABLES sa, sb,          \* product exploration: a pair of states (C16 isomorphism)
          toks, stA, stB,  \* run exploration: tokens fed so far and the two state stacks
          start,           \* the start symbol of this run
          tr,              \* trace mode: the recorded engine run being validated (carried in the state)
          mode
vars == <<sa, sb, toks, stA, stB, start, tr, mode>>

Sig(Rules, r) == Rules[r].sig

(* ---------- product of the two pushdown machines: complete, finite ---------- *)
IsoInit == /\ mode = "iso" /\ \E st \in DOMAIN StartA : st \in DOMAIN StartB /\ sa = StartA[st] /\ sb = StartB[st] /\ start = st
           /\ toks = <<>> /\ stA = <<>> /\ stB = <<>> /\ tr = <<>>
IsoNext == /\ mode = "iso"
           /\ \E x \in (DOMAIN ActA[sa]) \cap (DOMAIN ActB[sb]) :
                /\ ActA[sa][x].k = "S" /\ ActB[sb][x].k = "S"
                /\ sa' = ActA[sa][x].to /\ sb' = ActB[sb][x].to
           /\ UNCHANGED <<toks, stA, stB, start, tr, mode>>
\* the rows of paired states agree: same symbols, same kind of action, same rule
C16_Rows == mode = "iso" =>
            /\ DOMAIN ActA[sa] = DOMAIN ActB[sb]
            /\ \A x \in DOMAIN ActA[sa] \cap DOMAIN ActB[sb] :
                 /\ ActA[sa][x].k = ActB[sb][x].k
                 /\ ActA[sa][x].k = "R" => Sig(RulesA, ActA[sa][x].rule) = Sig(RulesB, ActB[sb][x].rule)
\* (state-independent facts are written as implications from a state predicate so that TLC reports them as invariants)
C16_Starts == mode \in {"iso", "run", "trace"} => (DOMAIN StartA = DOMAIN StartB /\ DOMAIN EndA = DOMAIN EndB)
C16_RuleSets == mode \in {"iso", "run", "trace"} => ({RulesA[r].sig : r \in DOMAIN RulesA} = {RulesB[r].sig : r \in DOMAIN RulesB})

(* ---------- running both machines on every token string up to MaxLen ---------- *)
\* feed one terminal: reduce while the row says so, then shift; <<>> stands for "rejected"
RECURSIVE Feed(_, _, _, _)
Feed(Act, Rules, stack, x) ==
  IF stack = <<>> THEN <<>>
  ELSE LET s == stack[Len(stack)] IN
       IF x \notin DOMAIN Act[s] THEN <<>>
       ELSE LET a == Act[s][x] IN
            IF a.k = "S" THEN Append(stack, a.to)
            ELSE LET r == Rules[a.rule]
                     base == SubSeq(stack, 1, Len(stack) - r.len)
                     top == base[Len(base)]
                 IN IF r.origin \notin DOMAIN Act[top] THEN <<>>
                    ELSE Feed(Act, Rules, Append(base, Act[top][r.origin].to), x)
\* the sequence of rule signatures applied while feeding x (the shape of the tree that is built)
RECURSIVE Reds(_, _, _, _)
Reds(Act, Rules, stack, x) ==
  IF stack = <<>> THEN <<>>
  ELSE LET s == stack[Len(stack)] IN
       IF x \notin DOMAIN Act[s] THEN <<>>
       ELSE LET a == Act[s][x] IN
            IF a.k = "S" THEN <<>>
            ELSE LET r == Rules[a.rule]
                     base == SubSeq(stack, 1, Len(stack) - r.len)
                     top == base[Len(base)]
                 IN IF r.origin \notin DOMAIN Act[top] THEN <<r.sig>>
                    ELSE <<r.sig>> \o Reds(Act, Rules, Append(base, Act[top][r.origin].to), x)
\* acceptance as the engine does it: on $END keep reducing; the input is accepted when a goto reaches the end
\* state of the start symbol ($END itself is never shifted)
RECURSIVE AcceptsFrom(_, _, _, _)
AcceptsFrom(Act, Rules, end, stack) ==
  IF stack = <<>> THEN FALSE
  ELSE LET s == stack[Len(stack)] IN
       IF "$END" \notin DOMAIN Act[s] THEN FALSE
       ELSE LET a == Act[s]["$END"] IN
            IF a.k = "S" THEN FALSE
            ELSE LET r == Rules[a.rule]
                     base == SubSeq(stack, 1, Len(stack) - r.len)
                     top == base[Len(base)]
                 IN IF r.origin \notin DOMAIN Act[top] THEN FALSE
                    ELSE IF Act[top][r.origin].to = end THEN TRUE
                    ELSE AcceptsFrom(Act, Rules, end, Append(base, Act[top][r.origin].to))
RECURSIVE EndReds(_, _, _, _)
EndReds(Act, Rules, end, stack) ==
  IF stack = <<>> THEN <<>>
  ELSE LET s == stack[Len(stack)] IN
       IF "$END" \notin DOMAIN Act[s] THEN <<>>
       ELSE LET a == Act[s]["$END"] IN
            IF a.k = "S" THEN <<>>
            ELSE LET r == Rules[a.rule]
                     base == SubSeq(stack, 1, Len(stack) - r.len)
                     top == base[Len(base)]
                 IN IF r.origin \notin DOMAIN Act[top] \/ Act[top][r.origin].to = end THEN <<r.sig>>
                    ELSE <<r.sig>> \o EndReds(Act, Rules, end, Append(base, Act[top][r.origin].to))

RunInit == /\ mode = "run" /\ \E st \in DOMAIN StartA : stA = <<StartA[st]>> /\ stB = <<StartB[st]>> /\ start = st
           /\ toks = <<>> /\ sa = 0 /\ sb = 0 /\ tr = <<>>
RunNext == /\ mode = "run" /\ Len(toks) < MaxLen /\ stA # <<>>
           /\ \E x \in Terminals :
                /\ toks' = Append(toks, x)
                /\ stA' = Feed(ActA, RulesA, stA, x)
                /\ stB' = Feed(ActB, RulesB, stB, x)
           /\ UNCHANGED <<sa, sb, start, tr, mode>>
\* both machines reject or both continue, with the same reductions, and agree on acceptance
C16_SameLanguage == mode = "run" =>
   /\ (stA = <<>>) = (stB = <<>>)
   /\ stA # <<>> => AcceptsFrom(ActA, RulesA, EndA[start], stA) = AcceptsFrom(ActB, RulesB, EndB[start], stB)
   /\ stA # <<>> => EndReds(ActA, RulesA, EndA[start], stA) = EndReds(ActB, RulesB, EndB[start], stB)
C16_SameReductions == [][mode = "run" =>
      Reds(ActA, RulesA, stA, toks'[Len(toks')]) = Reds(ActB, RulesB, stB, toks'[Len(toks')])]_vars

(* ---------- trace validation: the shipped ENGINE executes table A (code -> spec) ---------- *)
\* sa is the index of the recorded run; every recorded token must take the spec's stack to the recorded stack
TraceInit == /\ mode = "trace" /\ sa \in 1..Len(Traces) /\ sb = 0 /\ toks = <<>> /\ stB = <<>>
             /\ tr = Traces[sa] /\ start = tr.start /\ stA = <<StartA[tr.start]>>
TraceNext == /\ mode = "trace" /\ Len(toks) < Len(tr.toks)
             /\ LET x == tr.toks[Len(toks) + 1] IN
                  /\ toks' = Append(toks, x)
                  /\ stA' = Feed(ActA, RulesA, stA, x)
                  /\ stA' = tr.stacks[Len(toks) + 1]          \* <<>> stands for "the engine rejected here"
             /\ UNCHANGED <<sa, sb, stB, start, tr, mode>>
TraceAccepted == /\ mode = "trace" /\ Len(toks) = Len(tr.toks)
                 \* acceptance is compared only when the engine was fed $END (a lexer error mid-input is not a table matter)
                 /\ ((tr.ended /\ stA # <<>>) => AcceptsFrom(ActA, RulesA, EndA[start], stA) = tr.accepted)

Init == IsoInit \/ RunInit \/ TraceInit
Next == IsoNext \/ RunNext \/ TraceNext
=============================================================================
